//go:build verif

package main

// C06 — results are schedule-independent; nothing races or keeps running after return.
//
// For every input of an exhaustively enumerated small input space, ALL
// interleavings of the hooked operations of the lexer and parser goroutines
// are explored (stateless DFS, e2.go).  Oracle: one observation per input over
// all schedules; no deadlock; when the call returns every goroutine it
// started has exited and nothing touches the reader or the result slots.

import (
	"bytes"
	"encoding/json"
	"fmt"
	"os"
	"os/exec"
	"path/filepath"
	"runtime"
	"sort"
	"strings"
	"sync"
	"syscall"

	"github.com/hattya/go.sh/interp"
	"github.com/hattya/go.sh/parser"
	"github.com/hattya/go.sh/pattern"
	"github.com/hattya/go.sh/printer"
)

type lateReader struct {
	r           *strings.Reader
	afterReturn *bool
	late        int
}

func (l *lateReader) ReadRune() (rune, int, error) {
	if *l.afterReturn {
		l.late++
	}
	return l.r.ReadRune()
}

func (l *lateReader) UnreadRune() error {
	if *l.afterReturn {
		l.late++
	}
	return l.r.UnreadRune()
}

type c06Case struct {
	Kind     string `json:"kind"` // parse | eval
	Src      string `json:"source"`
	Schedule []int  `json:"schedule,omitempty"`
}

var c06ParseSigma = []string{"a", "|", ";", "(", ")", "$(", "$(a)", "`", "'", "${", "<<E", "\n", "#c", "if", "3<<U"}

func c06Render(pieces []string) string {
	var b strings.Builder
	pending, unterminated := 0, false
	for i, s := range pieces {
		if s == "\n" {
			b.WriteByte('\n')
			for ; pending > 0; pending-- {
				b.WriteString("x\nE\n")
			}
			if unterminated {
				// "3<<U": a here-document with an IO number whose delimiter never comes
				b.WriteString("x\n")
				unterminated = false
			}
			continue
		}
		if i > 0 && pieces[i-1] != "\n" {
			b.WriteByte(' ')
		}
		if s == "<<E" {
			pending++
		}
		if s == "3<<U" {
			unterminated = true
		}
		b.WriteString(s)
	}
	return b.String()
}

func c06ParseBody(src string, late *int) func(afterReturn *bool) string {
	return func(afterReturn *bool) string {
		rd := &lateReader{r: strings.NewReader(src), afterReturn: afterReturn}
		cmds, comments, err := parser.ParseCommands(nil, "t", rd)
		if err != nil && racePass {
			// (in the race pass neither the reader nor the results are touched after a failing call: the lexer that
			// such a call leaves running is the known finding, and the detector would only report it many times over)
			return "err=" + err.Error()
		}
		var b strings.Builder
		fmt.Fprintf(&b, "err=%v | cmds=%s | comments=", err, dumpAST(cmds, true))
		for _, c := range comments {
			fmt.Fprintf(&b, "%q@%d:%d ", c.Text, c.Hash.Line(), c.Hash.Col())
		}
		fmt.Fprintf(&b, "| consumed=%d", len(src)-rd.r.Len())
		if late != nil {
			defer func() { *late = rd.late }()
		}
		_ = rd
		return b.String()
	}
}

// c06FaultBody: the reader fails from rune k on (or once at rune k).
func c06FaultBody(src string, k int, once bool) func(afterReturn *bool) string {
	return func(afterReturn *bool) string {
		fs := &faultScanner{rs: []rune(src), k: k, once: once}
		_, _, err := parser.ParseCommands(nil, "t", fs)
		return fmt.Sprintf("err=%v delivered=%v", err, fs.delivered)
	}
}

func c06EvalBody(src string) func(afterReturn *bool) string {
	return func(afterReturn *bool) string {
		env := interp.NewExecEnv("sh")
		env.Set("x", "5")
		env.Set("y", "abc")
		env.Unset("z")
		n, err := env.Eval(src)
		var vs []string
		for _, k := range []string{"x", "y", "z"} {
			if v, ok := env.Get(k); ok {
				vs = append(vs, k+"="+v.Value)
			}
		}
		return fmt.Sprintf("n=%d err=%v vars=%v", n, err, vs)
	}
}

type c06Summary struct {
	executions  int
	complete    bool
	outcomes    map[string][]int // observation → one schedule producing it
	joined      map[string][]int // the same, restricted to executions in which every goroutine had finished when the caller returned
	topAlive    int              // executions in which the top-level lexer (T1) was still running at a failing return
	otherAlive  []int            // a failing return with T1 finished but another goroutine still running
	deadlock    []int
	blocked     []int
	stuck       []int
	aliveOK     []int // schedule with a lexer alive at a successful return
	postOK      []int // lexer activity after a successful return
	aliveErr    int
	postErr     int
	maxSteps    int
	transitions int64
}

func failed(obs string) bool {
	return !strings.HasPrefix(obs, "err=<nil>") && !strings.Contains(obs, " err=<nil> ")
}

func c06Explore(body func(afterReturn *bool) string, bound, maxExec int) c06Summary {
	sum := c06Summary{outcomes: map[string][]int{}, joined: map[string][]int{}}
	sum.executions, sum.complete = explore(body, bound, maxExec, func(r execResult) {
		sum.transitions += int64(r.steps)
		if r.steps > sum.maxSteps {
			sum.maxSteps = r.steps
		}
		tr := append([]int{}, r.trace...)
		switch {
		case r.blocked:
			if sum.blocked == nil {
				sum.blocked = tr
			}
			return
		case r.deadlock:
			if sum.deadlock == nil {
				sum.deadlock = tr
			}
			return
		}
		if _, ok := sum.outcomes[r.obs]; !ok {
			sum.outcomes[r.obs] = tr
		}
		if r.alive == 0 {
			if _, ok := sum.joined[r.obs]; !ok {
				sum.joined[r.obs] = tr
			}
		} else if failed(r.obs) {
			if r.topAlive {
				sum.topAlive++
			} else if sum.otherAlive == nil {
				sum.otherAlive = tr
			}
		}
		if r.stuck > 0 && sum.stuck == nil {
			sum.stuck = tr
		}
		if failed(r.obs) {
			if r.alive > 0 {
				sum.aliveErr++
			}
			if len(r.post) > 0 {
				sum.postErr++
			}
		} else {
			if r.alive > 0 && sum.aliveOK == nil {
				sum.aliveOK = tr
			}
			if len(r.post) > 0 && sum.postOK == nil {
				sum.postOK = tr
			}
		}
	})
	return sum
}

// c06Judge turns a summary into violations.
func c06Judge(w *W, kind, src string, sum c06Summary) {
	c := func(s []int) c06Case { return c06Case{kind, src, s} }
	if sum.blocked != nil {
		w.Violation("blocked", c(sum.blocked), fmt.Sprintf("%s(%q): a released goroutine neither reached its next point nor exited within 20 s (blocked in an operation the scheduler does not own)", kind, src))
	}
	if sum.deadlock != nil {
		w.Violation("deadlock", c(sum.deadlock), fmt.Sprintf("%s(%q): deadlock — the caller has not returned and no goroutine can make a step", kind, src))
	}
	if sum.stuck != nil {
		w.Violation("stuck-goroutine", c(sum.stuck), fmt.Sprintf("%s(%q): after the caller returned a goroutine it started is blocked forever", kind, src))
	}
	if sum.aliveOK != nil {
		w.Violation("alive-after-success", c(sum.aliveOK), fmt.Sprintf("%s(%q): the call returns successfully while a goroutine it started is still running", kind, src))
	}
	if sum.postOK != nil {
		w.Violation("activity-after-success", c(sum.postOK), fmt.Sprintf("%s(%q): a goroutine started by the call performs hooked operations after the successful return", kind, src))
	}
	if sum.otherAlive != nil {
		w.Violation("nested-lexer-outlives-call", c(sum.otherAlive), fmt.Sprintf("%s(%q): the failing call returns after its own lexer has finished but while another goroutine it started is still running", kind, src))
	}
	if len(sum.outcomes) > 1 {
		var obs []string
		allFail := true
		for o := range sum.outcomes {
			obs = append(obs, o)
			if !failed(o) {
				allFail = false
			}
		}
		sort.Strings(obs)
		cl := "result-depends-on-schedule"
		switch {
		case allFail && len(sum.joined) <= 1 && kind == "ParseCommands":
			// every schedule in which the caller returns only after its goroutines have finished gives the same result:
			// the variation stems from returning early
			cl = "failing-parse-returns-before-its-lexer-finished"
		case allFail:
			cl = "failure-details-depend-on-schedule"
		}
		d := fmt.Sprintf("%s(%q): %d different results over %d schedules (%d among the schedules that return after every goroutine has finished):", kind, src, len(obs), sum.executions, len(sum.joined))
		for i, o := range obs {
			if i < 4 {
				d += fmt.Sprintf("\n   [%d] %s (schedule %v)", i, o, sum.outcomes[o])
			}
		}
		w.Violation(cl, c(sum.outcomes[obs[len(obs)-1]]), d)
	} else if sum.topAlive > 0 {
		cl := "lexer-outlives-failed-call"
		if kind == "ParseCommands" {
			cl = "failing-parse-returns-before-its-lexer-finished"
		}
		w.Violation(cl, c(nil), fmt.Sprintf("%s(%q): in %d of %d schedules the failing call returns while its lexer goroutine is still running", kind, src, sum.topAlive, sum.executions))
	}
}

func c06Run(w *W) {
	installHooks()
	np, ne, nf := 3, 4, 2
	maxExec := 20000
	if w.thorough() {
		np, ne, nf = 4, 5, 3
		maxExec = 200000
	}
	account := func(kind, src string, sum c06Summary) {
		w.Count("evaluations", int64(sum.executions))
		w.Count("schedules", int64(sum.executions))
		w.Count("states", 1)
		w.Count("transitions", sum.transitions)
		w.Count("traces_validated_against_impl", int64(sum.executions))
		if sum.executions > 1 {
			w.Count("distinct_nontrivial", 1)
			w.Sample(map[string]interface{}{"kind": kind, "source": src, "schedules": sum.executions, "distinct_results": len(sum.outcomes)})
		}
		if len(sum.outcomes) > 1 {
			w.Count("inputs_with_several_results", 1)
		}
		if !sum.complete {
			w.Count("inputs_capped", 1)
			w.res.Incomplete = true
		}
		c06Judge(w, kind, src, sum)
	}
	// parser: every input ≤ np pieces, all schedules
	cur := make([]string, 0, np)
	var rec func()
	rec = func() {
		if len(cur) > 0 && w.Mine() && !w.TimeUp() {
			src := c06Render(cur)
			w.Announce("parse " + src)
			sum := c06Explore(c06ParseBody(src, nil), -1, maxExec)
			account("ParseCommands", src, sum)
			if sum.deadlock == nil && sum.blocked == nil {
				c06FreeRun(w, "ParseCommands", src, sum)
				c06DelayRuns(w, "ParseCommands", src, c06ParseBody(src, nil), sum, false)
			}
			// the same input with the reader failing from rune k on (sticky) and once at rune k (transient), all schedules:
			// whatever the interleaving, the call returns
			if len(cur) <= nf && sum.deadlock == nil && sum.blocked == nil {
				n := len([]rune(src))
				for k := 0; k <= n; k++ {
					for _, once := range []bool{false, true} {
						w.Announce(fmt.Sprintf("parse %q fault@%d once=%v", src, k, once))
						fsum := c06Explore(c06FaultBody(src, k, once), -1, maxExec)
						w.Count("fault_schedules", int64(fsum.executions))
						w.Count("evaluations", int64(fsum.executions))
						w.Count("transitions", fsum.transitions)
						w.Count("traces_validated_against_impl", int64(fsum.executions))
						cc := c06Case{Kind: fmt.Sprintf("ParseCommands/fault@%d/once=%v", k, once), Src: src}
						if fsum.blocked != nil {
							cc.Schedule = fsum.blocked
							w.Violation("blocked", cc, fmt.Sprintf("ParseCommands(%q) with the reader failing at rune %d (transient=%v): a goroutine is blocked in an operation the scheduler does not own", src, k, once))
						}
						if fsum.deadlock != nil {
							cc.Schedule = fsum.deadlock
							w.Violation("deadlock", cc, fmt.Sprintf("ParseCommands(%q) with the reader failing at rune %d (transient=%v): deadlock — the call never returns under schedule %v", src, k, once, fsum.deadlock))
						}
						for o, sch := range fsum.outcomes {
							if strings.HasPrefix(o, "err=<nil>") && strings.Contains(o, "delivered=true") {
								cc.Schedule = sch
								w.Violation("fault-swallowed", cc, fmt.Sprintf("ParseCommands(%q) with the reader failing at rune %d: nil error although the fault was delivered (schedule %v)", src, k, sch))
							}
						}
						c06DelayRuns(w, fmt.Sprintf("ParseCommands/fault@%d/once=%v", k, once), src, c06FaultBody(src, k, once), fsum, true)
					}
				}
			}
		}
		if len(cur) == np {
			return
		}
		for _, s := range c06ParseSigma {
			cur = append(cur, s)
			rec()
			cur = cur[:len(cur)-1]
		}
	}
	rec()
	// reader faults inside nested substitutions (three and four pieces), all schedules
	for _, src := range []string{"$( ; a", "$( | a", "` ; a", "a $( ;", "$(a) | |", "a $( ; ; )", "a `b ;", "$( a <<E", "a | $( | b", "` <<E `", "` 3<<U `", "` a <<E `", "$( <<E )", "` <<E"} {
		if !w.Mine() || w.TimeUp() {
			continue
		}
		n := len([]rune(src))
		for k := 0; k <= n; k++ {
			for _, once := range []bool{false, true} {
				w.Announce(fmt.Sprintf("parse %q fault@%d once=%v", src, k, once))
				fsum := c06Explore(c06FaultBody(src, k, once), -1, maxExec)
				w.Count("fault_schedules", int64(fsum.executions))
				w.Count("evaluations", int64(fsum.executions))
				w.Count("transitions", fsum.transitions)
				w.Count("traces_validated_against_impl", int64(fsum.executions))
				cc := c06Case{Kind: fmt.Sprintf("ParseCommands/fault@%d/once=%v", k, once), Src: src}
				if fsum.blocked != nil {
					cc.Schedule = fsum.blocked
					w.Violation("blocked", cc, fmt.Sprintf("ParseCommands(%q) with the reader failing at rune %d (transient=%v): a goroutine is blocked in an operation the scheduler does not own", src, k, once))
				}
				if fsum.deadlock != nil {
					cc.Schedule = fsum.deadlock
					w.Violation("deadlock", cc, fmt.Sprintf("ParseCommands(%q) with the reader failing at rune %d (transient=%v): deadlock — the call never returns under schedule %v", src, k, once, fsum.deadlock))
				}
				c06DelayRuns(w, fmt.Sprintf("ParseCommands/fault@%d/once=%v", k, once), src, c06FaultBody(src, k, once), fsum, true)
			}
		}
	}
	// longer fixed inputs with an iterated preemption bound
	for _, src := range []string{
		"cat <<E <<F | b\nx\nE\ny\nF\n", "a $(b <<E\nx\nE\n) c\n", "if a; then b <<E\nx\nE\nfi\n", "a | | $( b ; )\nc\n", "{ a; } | | b\nc\n",
		"a `b $(c) d` e\n", "a $(b `c`) | | d\n", "for x in a b; do c; done\n", "a <<E &&\nx\nE\nb\n", "a $( 'q\n",
		"cat <<A <<B\nx\nA", "cat <<A <<B\nx\nA\n", "cat <<A; cat <<B\nA", "a <<A | b <<B\nA\ny",
		"cat 3<<A\nfoo\n", "a <<E 3<<F\nx\nE\ny\n", "if a 3<<A\nthen b\n", "b $(a 3<<A\nb\n", "a 3<<E 4<<F\nx\nE\ny\nF\n",
	} {
		if !w.Mine() || w.TimeUp() {
			continue
		}
		w.Announce("parse " + src)
		for bound := 0; bound <= 2; bound++ {
			sum := c06Explore(c06ParseBody(src, nil), bound, maxExec)
			if bound == 2 || !sum.complete {
				w.Count("preemption_bound_completed", int64(bound))
				account("ParseCommands", src, sum)
				break
			}
		}
	}
	// the derivation generator's lists of leaf commands and default-filled compound commands, and every single-symbol
	// deletion of them (mostly ill-formed: an error at each possible place), with ≤ 1 preemption
	seenD := map[string]bool{}
	derivations(false, func(name string, texts []string) {
		if name != "D0" && !(name == "D1" && len(texts) <= 12) {
			return
		}
		key := strings.Join(texts, "\x00")
		if seenD[key] || !w.Mine() || w.TimeUp() {
			seenD[key] = true
			return
		}
		seenD[key] = true
		base := syms(append(append([]string{}, texts...), "\n")...)
		for del := -1; del < len(base)-1; del++ {
			ss := base
			if del >= 0 {
				if !w.thorough() && del%2 == 1 {
					continue // quick tier: every other deletion
				}
				ss = append(append([]sym{}, base[:del]...), base[del+1:]...)
			}
			if lexicallyEntangled(ss) {
				continue
			}
			src := render(ss).src
			w.Announce("parse " + src)
			sum := c06Explore(c06ParseBody(src, nil), 1, maxExec)
			w.Count("generator_sentences", 1)
			account("ParseCommands", src, sum)
		}
	})
	// interp: every token string ≤ ne, all schedules (both outcomes of every ambiguous select)
	tok := []string{"1", "08", "x", "y", "=", "+", "/", "0", "++", "(", ")", "@"}
	cur = cur[:0]
	var rec2 func()
	rec2 = func() {
		if len(cur) > 0 && w.Mine() && !w.TimeUp() {
			src := strings.Join(cur, " ")
			w.Announce("eval " + src)
			sum := c06Explore(c06EvalBody(src), -1, maxExec)
			account("Eval", src, sum)
			if sum.deadlock == nil && sum.blocked == nil {
				c06FreeRun(w, "Eval", src, sum)
			}
		}
		if len(cur) == ne {
			return
		}
		for _, s := range tok {
			cur = append(cur, s)
			rec2()
			cur = cur[:len(cur)-1]
		}
	}
	rec2()
	// longer Eval inputs: a sub-expression that faults (or assigns) is reduced while the lexer is still ahead and about
	// to reject a later character, or a second fault follows — all schedules
	for _, src := range []string{"( 1 / 0 ) @", "1 / 0 + @", "( x = 1 ) @", "( 08 ) @", "1 / 0 + 08", "( 1 / 0 ) + ( 08 )", "x = 1 / 0 @", "( y ) @", "1 / 0 ) @",
		"( x ++ ) / 0 @", "0 && ( 1 / 0 ) @", "( 1 / 0 ) ( @", "( x = 2 ) + ( 1 / 0 ) @", "1 ? ( 1 / 0 ) : @", "( 1 / 0 ) + ( y ) + @",
		"( 0 && 1 ) @", "( 0 && ++ x ) @", "0 ? 2 : @", "( 1 || x ) @", "0 && 1 @", "0 && @", "1 || ( 0 && @", "( 0 ? x = 1 : 2 ) @"} {
		if !w.Mine() || w.TimeUp() {
			continue
		}
		w.Announce("eval " + src)
		sum := c06Explore(c06EvalBody(src), -1, maxExec)
		w.Count("longer_eval_inputs", 1)
		account("Eval", src, sum)
		if sum.deadlock == nil && sum.blocked == nil {
			c06FreeRun(w, "Eval", src, sum)
		}
	}
	// supplementary: free-running pass of the same bodies under the race detector
	if w.shard == 0 {
		c06RacePass(w)
	}
}

// c06DelayRuns: one free run per hooked point with the goroutine that reaches it held back (delayRuns in e2.go).
// Every observation must be one the exhaustive exploration produced; for a reader fault, a nil error after the fault
// was delivered is a violation in its own right.
func c06DelayRuns(w *W, kind, src string, body func(afterReturn *bool) string, sum c06Summary, fault bool) {
	if len(sum.outcomes) == 0 || sum.deadlock != nil || sum.blocked != nil {
		return
	}
	reported := false
	h := delayRuns(body, func(point int, o string) {
		w.Count("delay_runs", 1)
		if reported {
			return
		}
		cc := c06Case{Kind: fmt.Sprintf("%s/delay@%d", kind, point), Src: src}
		if fault && strings.HasPrefix(o, "err=<nil>") && strings.Contains(o, "delivered=true") {
			reported = true
			w.Violation("fault-swallowed", cc, fmt.Sprintf("%s(%q): with the goroutine that reaches hooked point %d held back (free run), the call returns a nil error although the reader's fault was delivered", kind, src, point))
			return
		}
		if _, ok := sum.outcomes[o]; !ok && sum.complete && !c06SameModuloConsumed(o, sum.outcomes) {
			reported = true
			w.Violation("model-misses-behaviour", cc, fmt.Sprintf("%s(%q): with the goroutine that reaches hooked point %d held back (free run) the result is one that no explored schedule produced — synchronisation the scheduler model does not know: %s", kind, src, point, o))
		}
	})
	_ = h
}

// c06FreeRun: conformance of the scheduler model — every result seen in a
// free run (no controller) must be among the results the exhaustive
// exploration produced for that input.
func c06FreeRun(w *W, kind, src string, sum c06Summary) {
	if len(sum.outcomes) == 0 {
		return
	}
	dummy := false
	for _, procs := range []int{1, 2, 16} {
		old := runtime.GOMAXPROCS(procs)
		for rep := 0; rep < 2; rep++ {
			var o string
			if kind == "Eval" {
				o = c06EvalBody(src)(&dummy)
			} else {
				o = c06ParseBody(src, nil)(&dummy)
			}
			w.Count("free_runs", 1)
			if _, ok := sum.outcomes[o]; !ok && sum.complete && !c06SameModuloConsumed(o, sum.outcomes) {
				w.Violation("model-misses-behaviour", c06Case{kind, src, nil}, fmt.Sprintf("%s(%q): a free run (GOMAXPROCS=%d) produced a result that no explored schedule produced — the scheduler model misses nondeterminism: %s", kind, src, procs, o))
			}
		}
		runtime.GOMAXPROCS(old)
	}
	for i := 0; i < 50 && runtime.NumGoroutine() > 3; i++ {
		runtime.Gosched()
	}
}

// a failing call returns while its lexer may still be reading (known finding): how much has been
// consumed at that moment can be any intermediate amount, which the point-level model does not enumerate
func c06SameModuloConsumed(o string, outcomes map[string][]int) bool {
	if !failed(o) {
		return false
	}
	cut := func(s string) string {
		if i := strings.LastIndex(s, "| consumed="); i >= 0 {
			return s[:i]
		}
		return s
	}
	for k := range outcomes {
		if cut(k) == cut(o) {
			return true
		}
	}
	return false
}

// c06RacePass runs the bodies free under the race detector in a separate process.
func c06RacePass(w *W) {
	runtime.LockOSThread() // Pdeathsig is bound to the creating thread
	defer runtime.UnlockOSThread()
	exe := filepath.Join(verifDir, "bin", "vcheck-race")
	if _, err := os.Stat(exe); err != nil {
		w.Note("race pass skipped: bin/vcheck-race not built")
		w.res.Incomplete = true
		return
	}
	for _, procs := range []string{"1", "2", "16"} {
		// a free run that blocks forever is reported by the engine's watchdog under this name; the
		// race-pass process dies with this worker
		w.Announce("free-running pass under the race detector, GOMAXPROCS=" + procs)
		cmd := exec.Command(exe, "racepass")
		cmd.SysProcAttr = &syscall.SysProcAttr{Pdeathsig: syscall.SIGKILL}
		cmd.Env = append(os.Environ(), "GOMAXPROCS="+procs, "GORACE=halt_on_error=0 exitcode=0")
		out, err := cmd.CombinedOutput()
		w.Count("race_pass_processes", 1)
		s := string(out)
		reports := strings.Split(s, "WARNING: DATA RACE")
		for _, rep := range reports[1:] {
			if k := strings.Index(rep, "=================="); k >= 0 {
				rep = rep[:k]
			}
			if len(rep) > 2500 {
				rep = rep[:2500]
			}
			w.Count("race_reports", 1)
			w.Violation(c06RaceClass(rep), map[string]string{"GOMAXPROCS": procs}, "the race detector reports a data race in a free run (GOMAXPROCS="+procs+"):\nWARNING: DATA RACE"+rep)
		}
		if len(reports) == 1 && err != nil {
			w.Violation("race-pass-failed", map[string]string{"GOMAXPROCS": procs}, fmt.Sprintf("race pass process failed: %v\n%s", err, tail(s, 600)))
		}
		for _, l := range strings.Split(s, "\n") {
			if strings.HasPrefix(l, "RACEPASS-MISMATCH ") {
				w.Violation("concurrent-calls-interfere", map[string]string{"GOMAXPROCS": procs, "pair": l}, "two calls running at the same time with their own arguments: "+l[len("RACEPASS-MISMATCH "):])
			}
		}
		if k := strings.LastIndex(s, "RACEPASS pairs="); k >= 0 {
			var n int64
			fmt.Sscanf(s[k:], "RACEPASS pairs=%d", &n)
			w.Count("race_pass_concurrent_pairs", n)
		}
		if k := strings.LastIndex(s, "RACEPASS runs="); k >= 0 {
			var n int64
			fmt.Sscanf(s[k:], "RACEPASS runs=%d", &n)
			w.Count("race_pass_runs", n)
		}
	}
}

// c06RaceClass attributes a race report to the known finding only if one
// access is made by ParseCommands itself (reading its result slots on return)
// and the other by the top-level lexer goroutine that ParseCommands started
// and did not wait for.
func c06RaceClass(report string) string {
	var first []string // function of the top frame of each of the two accesses
	lines := strings.Split(report, "\n")
	for i, l := range lines {
		t := strings.TrimSpace(l)
		if (strings.HasPrefix(t, "Write at") || strings.HasPrefix(t, "Read at") || strings.HasPrefix(t, "Previous write at") || strings.HasPrefix(t, "Previous read at")) && i+1 < len(lines) {
			first = append(first, strings.TrimSpace(lines[i+1]))
		}
	}
	if len(first) == 2 {
		byCaller := strings.HasPrefix(first[0], "github.com/hattya/go.sh/parser.ParseCommands()") || strings.HasPrefix(first[1], "github.com/hattya/go.sh/parser.ParseCommands()")
		byLexer := strings.Contains(report, "github.com/hattya/go.sh/parser.newLexer.gowrap1()")
		if byCaller && byLexer {
			return "failing-parse-returns-before-its-lexer-finished"
		}
	}
	return "data-race"
}

func tail(s string, n int) string {
	if len(s) > n {
		return s[len(s)-n:]
	}
	return s
}

// racePassMain: the free-running bodies, to be run in a binary built with -race.
var racePass bool

func racePassMain() {
	racePass = true
	dummy := false
	runs := 0
	cur := make([]string, 0, 3)
	var rec func()
	rec = func() {
		if len(cur) > 0 {
			src := c06Render(cur)
			for i := 0; i < 2; i++ {
				c06ParseBody(src, nil)(&dummy)
				runs++
			}
		}
		if len(cur) == 3 {
			return
		}
		for _, s := range c06ParseSigma {
			cur = append(cur, s)
			rec()
			cur = cur[:len(cur)-1]
		}
	}
	rec()
	tok := []string{"1", "08", "x", "=", "+", "/", "0", "++", "(", ")", "@", "&&", "?", ":"}
	var rec2 func(c []string)
	rec2 = func(c []string) {
		if len(c) > 0 {
			c06EvalBody(strings.Join(c, " "))(&dummy)
			runs++
		}
		if len(c) == 3 {
			return
		}
		for _, s := range tok {
			rec2(append(c, s))
		}
	}
	rec2(nil)
	for i := 0; i < 200 && runtime.NumGoroutine() > 2; i++ {
		runtime.Gosched()
	}
	// two calls at the same time, each with its own arguments: the results are a function of the arguments alone,
	// and the detector sees any state the two calls share (package-level buffers, caches)
	bodies := map[string]func(*bool) string{}
	var names []string
	for _, src := range []string{"a b\n", "a | b && c\n", "cat <<E\nx\nE\n", "a $(b `c`) d\n", "if a; then b; fi\n", "a 'q' \"$v\" ${v:-w}\n", "for x in a; do b; done # c\n", "x=1 a >f\n"} {
		bodies["ParseCommands "+src] = c06ParseBody(src, nil)
		names = append(names, "ParseCommands "+src)
	}
	for _, src := range []string{"1 + 2 * 3", "x = 7", "x++ + z", "(x += 2) * 010", "z = x ? 0x1F : 2", "- - 1"} {
		bodies["Eval "+src] = c06EvalBody(src)
		names = append(names, "Eval "+src)
	}
	for _, t := range [][2]string{{"a*b", "aXbYb"}, {"[!a-c]?", "xyz"}, {"\\*", "*a"}} {
		t := t
		n := "Match " + t[0] + " " + t[1]
		bodies[n] = func(*bool) string {
			m, err := pattern.Match([]string{t[0]}, pattern.Prefix|pattern.Largest, t[1])
			return fmt.Sprintf("%q %v", m, err)
		}
		names = append(names, n)
	}
	for _, src := range []string{"${v:-a b}$x", "\"$@\"x", "$((x+1))~"} {
		src := src
		n := "Expand " + src
		bodies[n] = func(*bool) string {
			wd, err := c13Parse(src)
			if err != nil {
				return "parse: " + err.Error()
			}
			env := interp.NewExecEnv("sh", "p q", "r")
			env.Set("x", "5")
			f, err := env.Expand(wd, 0)
			return fmt.Sprintf("%q %v", f, err)
		}
		names = append(names, n)
	}
	for _, src := range []string{"if a; then b <<E\nx\nE\nfi\n", "a | b && c &\n"} {
		src := src
		n := "Fprint " + src
		bodies[n] = func(*bool) string {
			cmds, _, err := parser.ParseCommands(nil, "t", src)
			if err != nil || len(cmds) == 0 {
				return "parse failed"
			}
			var b bytes.Buffer
			err = printer.Fprint(&b, cmds[0])
			return fmt.Sprintf("%q %v", b.String(), err)
		}
		names = append(names, n)
	}
	solo := map[string]string{}
	for _, n := range names {
		solo[n] = bodies[n](&dummy)
	}
	pairs := 0
	for _, a := range names {
		for _, b := range names {
			var ra, rb string
			start := make(chan struct{})
			var wg sync.WaitGroup
			wg.Add(2)
			go func() { defer wg.Done(); <-start; d := false; ra = bodies[a](&d) }()
			go func() { defer wg.Done(); <-start; d := false; rb = bodies[b](&d) }()
			close(start)
			wg.Wait()
			pairs++
			if ra != solo[a] || rb != solo[b] {
				fmt.Printf("RACEPASS-MISMATCH %q alongside %q: %s / %s, alone: %s / %s\n", a, b, ra, rb, solo[a], solo[b])
			}
		}
	}
	fmt.Printf("RACEPASS pairs=%d\n", pairs)
	fmt.Printf("RACEPASS runs=%d\n", runs)
}

func init() {
	extraCommands["racepass"] = racePassMain
	register(&check{
		id:    "C06",
		level: "model_checking",
		rule: "stateless DFS over ALL interleavings of the hooked operations (token hand-off incl. both outcomes of an ambiguous select, cancel, here-document queue, nested lexer join, error slots, return) for every ParseCommands input of ≤ 3 (quick) / 4 (thorough) pieces over {a | ; ( ) $( $(a) ` ' ${ <<E newline #c if 3<<U(unterminated numbered here-document)}, " +
			"19 longer inputs with preemption bound ≤ 2, the generator's lists of leaf commands and default-filled compound commands with each single-symbol deletion (preemption bound ≤ 1), every input of ≤ 2 (thorough 3) pieces additionally with the reader failing from / once at every rune index (all schedules: the call must return), and every Eval input of ≤ 4 / 5 tokens over {1 08 x y = + / 0 ++ ( ) @} plus 23 longer ones (a fault reduced while the lexer is about to reject a later character); non-trivial = inputs with more than one schedule; plus a supplementary free-running pass (GOMAXPROCS 1, 2, 16) whose results must be among the explored ones, and the same bodies under the race detector",
		assume: []string{"the controller owns every synchronisation operation between the goroutines (hooks, build tag verif); mutexes are never contended because no point lies inside a critical section",
			"unhooked unsynchronised accesses and memory-model effects are only looked at by the supplementary -race pass; silence there is not evidence of absence",
			"executions are capped per input (quick 20 000, thorough 200 000); a capped input makes the run non-exhaustive"},
		run: c06Run,
		replay: func(raw json.RawMessage) error {
			var c c06Case
			if err := json.Unmarshal(raw, &c); err != nil {
				return err
			}
			installHooks()
			body := c06ParseBody(c.Src, nil)
			if strings.HasPrefix(c.Kind, "Eval") {
				body = c06EvalBody(c.Src)
			}
			fault := false
			if i := strings.Index(c.Kind, "/fault@"); i >= 0 {
				var k int
				var once bool
				if _, err := fmt.Sscanf(c.Kind[i:], "/fault@%d/once=%t", &k, &once); err == nil {
					body, fault = c06FaultBody(c.Src, k, once), true
				}
			}
			if strings.Contains(c.Kind, "/delay@") {
				sum := c06Explore(body, -1, 20000)
				bad := ""
				delayRuns(body, func(point int, o string) {
					fmt.Printf("%s(%q) with hooked point %d held back: %s\n", c.Kind, c.Src, point, o)
					if _, ok := sum.outcomes[o]; bad == "" && (fault && strings.HasPrefix(o, "err=<nil>") && strings.Contains(o, "delivered=true") || !ok && sum.complete && !c06SameModuloConsumed(o, sum.outcomes)) {
						bad = fmt.Sprintf("point %d: %s", point, o)
					}
				})
				if bad != "" {
					return fmt.Errorf("delay run: %s", bad)
				}
				return nil
			}
			r := runOnce(c.Schedule, body)
			fmt.Printf("%s(%q) under schedule %v:\n  steps: %s\n  result: %s\n  deadlock=%v blocked=%v alive-at-return=%d post=%v stuck=%d\n", c.Kind, c.Src, c.Schedule, traceString(r), r.obs, r.deadlock, r.blocked, r.alive, r.post, r.stuck)
			r2 := runOnce(c.Schedule, body)
			if r2.obs != r.obs {
				return fmt.Errorf("replaying the same schedule twice gives different observations: harness nondeterminism")
			}
			sum := c06Explore(body, -1, 20000)
			if len(sum.outcomes) > 1 || sum.deadlock != nil || sum.blocked != nil || sum.aliveOK != nil || sum.postOK != nil || sum.stuck != nil {
				return fmt.Errorf("%d different results over %d schedules (deadlock=%v)", len(sum.outcomes), sum.executions, sum.deadlock != nil)
			}
			return nil
		},
	})
}
