package main

// Generated word space (family "WG" of the derivation enumerator).
//
// The hand-written word menu of sym.go lists word forms one by one; three
// seeded changes and one genuine defect (a '#' inside a word taken for a
// comment) lived in shapes it did not contain.  Here every word is a
// concatenation of ≤ 3 parts from a part menu (literal characters that are
// significant somewhere in the shell, the three quotings, every expansion
// form), subject to the lexical rules that keep the parts apart (XCU 2.3,
// 2.6.2).  The expected AST follows go.sh's documented convention for
// literal text: adjacent literal characters form one Lit, a '$' that
// introduces nothing starts a new Lit.

import (
	"strings"
	"sync"

	"github.com/hattya/go.sh/ast"
)

type wpart struct {
	text  string
	lit   bool                  // plain literal text
	parts func() []ast.WordPart // non-literal parts
}

func wgLit(t string) wpart { return wpart{text: t, lit: true} }
func wgNode(t string, f func() []ast.WordPart) wpart {
	return wpart{text: t, parts: f}
}

// the full part menu (words of ≤ 2 parts) and the reduced one (words of 3 parts)
var wgFull, wgReduced []wpart

func init() {
	for _, t := range []string{"a", "1", "=", ":", "~", "-", "#", "%", "/", ".", "é", "{", "}", "[", "]", "*", "?", "!", "^", ",", "+", "@", "x=", "$"} {
		wgFull = append(wgFull, wgLit(t))
	}
	one := func(p ast.WordPart) func() []ast.WordPart { return func() []ast.WordPart { return []ast.WordPart{p} } }
	wgFull = append(wgFull,
		wgNode("'q'", one(wSQ("q"))), wgNode("''", one(&ast.Quote{Tok: "'", Value: ast.Word{wLit("")}})), wgNode("'#'", one(wSQ("#"))),
		wgNode(`"d"`, one(wDQ(wLit("d")))), wgNode(`""`, one(&ast.Quote{Tok: `"`, Value: nil})), wgNode(`"$v"`, one(wDQ(wPE("v")))), wgNode(`"a$v b"`, one(wDQ(wLit("a"), wPE("v"), wLit(" b")))),
		wgNode(`\e`, one(wBS("e"))), wgNode(`\$`, one(wBS("$"))), wgNode(`\\`, one(wBS(`\`))), wgNode(`\'`, one(wBS("'"))), wgNode(`\#`, one(wBS("#"))), wgNode(`\ `, one(wBS(" "))),
		wgNode("$v", one(wPE("v"))), wgNode("$1", one(wPE("1"))), wgNode("$@", one(wPE("@"))), wgNode("$#", one(wPE("#"))), wgNode("$$", one(wPE("$"))),
		wgNode("${v}", one(wPEB("v", "", nil))), wgNode("${v:-w}", one(wPEB("v", ":-", ast.Word{wLit("w")}))), wgNode("${#v}", one(wPEB("v", "#", nil))), wgNode("${v#w}", one(wPEB("v", "#", ast.Word{wLit("w")}))),
		wgNode("$(c)", one(wCS(true, simpleCmd("c")))), wgNode("`c`", one(wCS(false, simpleCmd("c")))), wgNode("$((1))", one(wAE(wLit("1")))),
	)
	keep := map[string]bool{"a": true, "1": true, "=": true, ":": true, "~": true, "#": true, "/": true, "é": true, "x=": true, "$": true,
		"'q'": true, `"d"`: true, `"$v"`: true, `\e`: true, "$v": true, "$1": true, "${v}": true, "${v:-w}": true, "$(c)": true, "`c`": true, "$((1))": true}
	for _, p := range wgFull {
		if keep[p.text] {
			wgReduced = append(wgReduced, p)
		}
	}
}

func isNameChar(c byte) bool {
	return c == '_' || 'a' <= c && c <= 'z' || 'A' <= c && c <= 'Z' || '0' <= c && c <= '9'
}

// wgAdjacent reports whether b may directly follow a without the text splitting differently.
func wgAdjacent(a, b wpart) bool {
	switch {
	case a.lit && a.text == "$":
		// a '$' that must introduce nothing: what follows may not begin a parameter, a substitution or a quote
		return b.lit && strings.ContainsAny(b.text[:1], ":=%/.,+~]}^")
	case !a.lit && (a.text == "$v"):
		// the name of an unbraced parameter is the longest valid name
		return !isNameChar(b.text[0]) && !(b.text[0] >= 0x80)
	case !a.lit && a.text == "$1":
		return true // one digit only
	}
	return true
}

var (
	wgOnce  sync.Once
	wgWords []string
)

// generatedWords registers the generated words in symTable (once) and returns their texts:
// every word of ≤ 2 parts over the full menu and of 3 parts over the reduced menu.
func generatedWords() []string {
	wgOnce.Do(func() {
		var build func(seq []wpart)
		emit := func(seq []wpart) {
			var text strings.Builder
			for _, p := range seq {
				text.WriteString(p.text)
			}
			t := text.String()
			if _, exists := symTable[t]; exists || strings.HasPrefix(t, "#") {
				return
			}
			// a word made of digits only would be an IO number in front of a redirection; the
			// hand-written menu has "1" for that
			parts := append([]wpart{}, seq...)
			symTable[t] = sym{text: t, kind: kWord, parts: func() ast.Word {
				var w ast.Word
				var lit strings.Builder
				flush := func() {
					if lit.Len() > 0 {
						w = append(w, wLit(lit.String()))
						lit.Reset()
					}
				}
				for _, p := range parts {
					switch {
					case p.lit && p.text == "$":
						flush()
						lit.WriteString("$")
					case p.lit:
						lit.WriteString(p.text)
					default:
						flush()
						w = append(w, p.parts()...)
					}
				}
				flush()
				return w
			}}
			wgWords = append(wgWords, t)
		}
		build = func(seq []wpart) {
			if len(seq) > 0 {
				emit(seq)
			}
			if len(seq) == 3 {
				return
			}
			menu := wgFull
			if len(seq) == 2 {
				menu = wgReduced
				for _, p := range seq {
					in := false
					for _, q := range wgReduced {
						if q.text == p.text {
							in = true
						}
					}
					if !in {
						return // three-part words draw all their parts from the reduced menu
					}
				}
			}
			for _, p := range menu {
				if len(seq) > 0 && !wgAdjacent(seq[len(seq)-1], p) {
					continue
				}
				build(append(append([]wpart{}, seq...), p))
			}
		}
		build(nil)
	})
	return wgWords
}
