package main

// Symbols: a case of the parser checks is a string of symbols; a symbol is a
// piece of source text together with what it means to the reference grammar
// model (token class and, for words, the expected word parts).

import (
	"strings"

	"github.com/hattya/go.sh/ast"
)

type symKind int

const (
	kWord    symKind = iota // a WORD; may be a reserved word, an assignment or a name depending on context
	kOp                     // control or redirection operator
	kIONum                  // IO_NUMBER glued to a redirection operator: "2>"
	kHere                   // "<<E" / "<<-E": operator plus delimiter word
	kArith                  // "((1))"
	kNL                     // newline
	kComment                // "#c" (extends to the end of the line)
	kBroken                 // unterminated quote / expansion: an error if it is reached
)

type sym struct {
	text        string
	kind        symKind
	parts       func() ast.Word // kWord / kArith expression / kHere delimiter
	op          string          // kOp, kIONum, kHere: operator text
	num         string          // kIONum / numbered here-doc: the number
	body        string          // kHere: the body the renderer writes (without the delimiter line)
	inner       []string        // kWord: texts of the comments the word's substitutions contain, in order
	delim       string          // kHere: delimiter after quote removal
	strip       bool            // kHere: <<-
	quotedDelim bool            // kHere: some part of the delimiter is quoted
	noDelim     bool            // kHere: the delimiter line never comes (the body only holds look-alikes)
}

// ---- word part constructors (positions are zero: skeletons are position free)

func wLit(s string) *ast.Lit               { return &ast.Lit{Value: s} }
func wSQ(s string) *ast.Quote              { return &ast.Quote{Tok: "'", Value: ast.Word{wLit(s)}} }
func wDQ(parts ...ast.WordPart) *ast.Quote { return &ast.Quote{Tok: `"`, Value: ast.Word(parts)} }
func wBS(s string) *ast.Quote              { return &ast.Quote{Tok: `\`, Value: ast.Word{wLit(s)}} }
func wPE(name string) *ast.ParamExp        { return &ast.ParamExp{Name: wLit(name)} }
func wPEB(name, op string, w ast.Word) *ast.ParamExp {
	return &ast.ParamExp{Braces: true, Name: wLit(name), Op: op, Word: w}
}
func wCS(dollar bool, list ...ast.Command) *ast.CmdSubst {
	return &ast.CmdSubst{Dollar: dollar, List: list}
}
func wAE(parts ...ast.WordPart) *ast.ArithExp { return &ast.ArithExp{Expr: ast.Word(parts)} }
func simpleCmd(args ...string) *ast.Cmd {
	sc := &ast.SimpleCmd{}
	for _, a := range args {
		sc.Args = append(sc.Args, ast.Word{wLit(a)})
	}
	return &ast.Cmd{Expr: sc}
}

func word(text string, parts ...ast.WordPart) sym {
	ps := parts
	if len(ps) == 0 {
		ps = []ast.WordPart{wLit(text)}
	}
	return sym{text: text, kind: kWord, parts: func() ast.Word { return ast.Word(ps) }}
}

func op(text string) sym { return sym{text: text, kind: kOp, op: text} }

func here(opText, delimSrc string, delimParts ast.Word, delim, body string, quoted bool) sym {
	return sym{text: opText + delimSrc, kind: kHere, op: opText, parts: func() ast.Word { return delimParts },
		delim: delim, body: body, strip: opText == "<<-", quotedDelim: quoted}
}

var reservedWords = map[string]bool{"!": true, "{": true, "}": true, "for": true, "in": true, "do": true, "done": true, "case": true, "esac": true,
	"if": true, "then": true, "elif": true, "else": true, "fi": true, "while": true, "until": true}

// symTable: every symbol the alphabets draw from, by source text.
var symTable = map[string]sym{}

func init() {
	add := func(s sym) { symTable[s.text] = s }
	for _, t := range []string{"a", "b", "c", "x", "y", "z", "b=1", "x=1", "x=", "1", "é", "日本", "ü=1", "-1", "1a", "f"} {
		add(word(t))
	}
	for t := range reservedWords {
		add(word(t))
	}
	add(word("'q'", wSQ("q")))
	add(word("'x'", wSQ("x")))
	add(word("'q q'", wSQ("q q")))
	add(word("''", &ast.Quote{Tok: "'", Value: ast.Word{wLit("")}}))
	add(word(`"d"`, wDQ(wLit("d"))))
	add(word(`""`, &ast.Quote{Tok: `"`, Value: nil}))
	add(word(`"$v"`, wDQ(wPE("v"))))
	add(word(`"a$v b"`, wDQ(wLit("a"), wPE("v"), wLit(" b"))))
	add(word(`\e`, wBS("e")))
	add(word(`a\ b`, wLit("a"), wBS(" "), wLit("b")))
	add(word("$v", wPE("v")))
	add(word("$1", wPE("1")))
	add(word("$@", wPE("@")))
	add(word("$#", wPE("#")))
	add(word("$?", wPE("?")))
	add(word("$*", wPE("*")))
	add(word("$-", wPE("-")))
	add(word("$$", wPE("$")))
	add(word("$!", wPE("!")))
	add(word("$0", wPE("0")))
	add(word("${v}", wPEB("v", "", nil)))
	add(word("${10}", wPEB("10", "", nil)))
	// parameter names with multi-byte letters
	add(word("$é", wPE("é")))
	add(word("${é}", wPEB("é", "", nil)))
	add(word("${é:-w}", wPEB("é", ":-", ast.Word{wLit("w")})))
	// positional parameters whose number does not fit an int32 / int64 / uint64
	for _, n := range []string{"4294967296", "9223372036854775807", "9223372036854775808", "18446744073709551615", "99999999999999999999"} {
		add(word("${"+n+"}", wPEB(n, "", nil)))
	}
	add(word("${9223372036854775808:-w}", wPEB("9223372036854775808", ":-", ast.Word{wLit("w")})))
	add(word("${#v}", wPEB("v", "#", nil)))
	add(word("${#}", wPEB("#", "", nil)))
	add(word("${##}", wPEB("#", "#", nil)))
	for _, o := range []string{":-", "-", ":=", "=", ":?", "?", ":+", "+", "%", "%%", "#", "##"} {
		add(word("${v"+o+"w}", wPEB("v", o, ast.Word{wLit("w")})))
		add(word("${v"+o+"}", wPEB("v", o, ast.Word{})))
	}
	add(word("${v:-'q'}", wPEB("v", ":-", ast.Word{wSQ("q")})))
	add(word(`${v:-"d"}`, wPEB("v", ":-", ast.Word{wDQ(wLit("d"))})))
	add(word("${v:-${w}}", wPEB("v", ":-", ast.Word{wPEB("w", "", nil)})))
	add(word("${v:-`c`}", wPEB("v", ":-", ast.Word{wCS(false, simpleCmd("c"))})))
	add(word("${v%`c`}", wPEB("v", "%", ast.Word{wCS(false, simpleCmd("c"))})))
	add(word("${v:-$(c)}", wPEB("v", ":-", ast.Word{wCS(true, simpleCmd("c"))})))
	add(word("${v:-a`c`b}", wPEB("v", ":-", ast.Word{wLit("a"), wCS(false, simpleCmd("c")), wLit("b")})))
	add(word("${v:-$((1))}", wPEB("v", ":-", ast.Word{wAE(wLit("1"))})))
	add(word("${v:-~}", wPEB("v", ":-", ast.Word{wLit("~")})))
	add(word("${v:-$w}", wPEB("v", ":-", ast.Word{wPE("w")})))
	add(word("$(c)", wCS(true, simpleCmd("c"))))
	add(word("$(c d)", wCS(true, simpleCmd("c", "d"))))
	add(word("$(x)", wCS(true, simpleCmd("x"))))
	add(word("`x`", wCS(false, simpleCmd("x"))))
	add(word("`c`", wCS(false, simpleCmd("c"))))
	// two-character operators inside substitutions
	andOr := func(op string) ast.Command {
		return &ast.AndOrList{Pipeline: &ast.Pipeline{Cmd: simpleCmd("a")}, List: []*ast.AndOr{{Op: op, Pipeline: &ast.Pipeline{Cmd: simpleCmd("b")}}}}
	}
	add(word("$(a && b)", wCS(true, andOr("&&"))))
	add(word("`a || b`", wCS(false, andOr("||"))))
	add(word("$((1))", wAE(wLit("1"))))
	add(word("$((1+2))", wAE(wLit("1+2"))))
	add(word("a$v", wLit("a"), wPE("v")))
	add(word("a'q'", wLit("a"), wSQ("q")))
	add(word("$v$w", wPE("v"), wPE("w")))
	add(word(`a"d"`, wLit("a"), wDQ(wLit("d"))))
	add(word("a$(c)", wLit("a"), wCS(true, simpleCmd("c"))))
	// comments inside substitutions (they are returned with the command's comments, in source order)
	for _, cw := range []sym{
		word("$(b #k\nc)", wCS(true, simpleCmd("b"), simpleCmd("c"))),
		word("`b #k\nc`", wCS(false, simpleCmd("b"), simpleCmd("c"))),
		word("\"$(b #k\nc)\"", wDQ(wCS(true, simpleCmd("b"), simpleCmd("c")))),
		word("$(($(b #k\nc) + 1))", wAE(wCS(true, simpleCmd("b"), simpleCmd("c")), wLit("+"), wLit("1"))),
		word("${v:-$(b #k\nc)}", wPEB("v", ":-", ast.Word{wCS(true, simpleCmd("b"), simpleCmd("c"))})),
	} {
		cw.inner = []string{"k"}
		add(cw)
	}
	// arithmetic expressions made of several parts (multi-byte text next to an expansion, blanks between the parts)
	add(word("$((é+$v))", wAE(wLit("é+"), wPE("v"))))
	add(word("$((1+$v))", wAE(wLit("1+"), wPE("v"))))
	add(word("$(($v+é))", wAE(wPE("v"), wLit("+é"))))
	add(word(`$((é+"d"))`, wAE(wLit("é+"), wDQ(wLit("d")))))
	add(word("$((1 + $v))", wAE(wLit("1"), wLit("+"), wPE("v"))))
	add(word("$((é + 1))", wAE(wLit("é"), wLit("+"), wLit("1"))))
	add(word("$((é  + $v))", wAE(wLit("é"), wLit("+"), wPE("v"))))
	add(word("$(($é 1))", wAE(wPE("é"), wLit("1"))))
	add(sym{text: "((é + 1))", kind: kArith, parts: func() ast.Word { return ast.Word{wLit("é"), wLit("+"), wLit("1")} }})
	add(sym{text: "((é+$v))", kind: kArith, parts: func() ast.Word { return ast.Word{wLit("é+"), wPE("v")} }})
	// a "$" that introduces nothing is an ordinary character (go.sh keeps it as a literal part of its own)
	add(word("$", wLit("$")))
	add(word("a$", wLit("a"), wLit("$")))
	add(word("$v$", wPE("v"), wLit("$")))
	// tildes: at the start of a word, after "=" and ":" of an assignment, and after other parts of the word
	for _, t := range []string{"~", "~/a", "x=~", "x=a:~"} {
		add(word(t))
	}
	add(word("$v:~", wPE("v"), wLit(":~")))
	add(word("~$v", wLit("~"), wPE("v")))
	add(word("x=$v:~", wLit("x="), wPE("v"), wLit(":~")))
	add(word(`x="$v":~b`, wLit("x="), wDQ(wPE("v")), wLit(":~b")))
	add(word("${v:-$w:~}", wPEB("v", ":-", ast.Word{wPE("w"), wLit(":~")})))
	// multi-byte and multi-line words (positions must count characters)
	add(word("'é'", wSQ("é")))
	add(word(`"é$v"`, wDQ(wLit("é"), wPE("v"))))
	add(word("${v:-é}", wPEB("v", ":-", ast.Word{wLit("é")})))
	add(word("$(é)", wCS(true, simpleCmd("é"))))
	add(word("x=é", wLit("x=é")))
	add(word("é$v", wLit("é"), wPE("v")))
	add(word("'q\né'", wSQ("q\né")))
	add(word("\"d\né\"", wDQ(wLit("d\né"))))
	add(word("'é\nq'b", wSQ("é\nq"), wLit("b")))
	add(word("a\\\nb", wLit("a"), wLit("b"))) // line continuation inside a word
	add(word("$(b\nc)", wCS(true, simpleCmd("b"), simpleCmd("c"))))
	add(word("`b\nc`", wCS(false, simpleCmd("b"), simpleCmd("c"))))
	add(word("\"$(b\nc)\"", wDQ(wCS(true, simpleCmd("b"), simpleCmd("c")))))
	add(word("$(($(b\nc) + 1))", wAE(wCS(true, simpleCmd("b"), simpleCmd("c")), wLit("+"), wLit("1"))))
	add(word("${v:-$(b\nc)}", wPEB("v", ":-", ast.Word{wCS(true, simpleCmd("b"), simpleCmd("c"))})))
	// literal text directly after a substitution that ends on a later line (the nested lexer hands its position back)
	add(word("$(b\nc)d", wCS(true, simpleCmd("b"), simpleCmd("c")), wLit("d")))
	add(word("`b\nc`d", wCS(false, simpleCmd("b"), simpleCmd("c")), wLit("d")))
	add(word("\"x $(b\nc) y\"", wDQ(wLit("x "), wCS(true, simpleCmd("b"), simpleCmd("c")), wLit(" y"))))
	add(word("$((1 +\n2))d", wAE(wLit("1"), wLit("+"), wLit("2")), wLit("d")))
	add(word("x=$(b\nc)/d", wLit("x="), wCS(true, simpleCmd("b"), simpleCmd("c")), wLit("/d")))
	// "$@" as the word of an operator (no positional parameters: zero fields inside an expansion)
	add(word("${v:-\"$@\"}", wPEB("v", ":-", ast.Word{wDQ(wPE("@"))})))
	add(word("${v:+\"$@\"}", wPEB("v", ":+", ast.Word{wDQ(wPE("@"))})))
	add(word("\"${w-\"$@\"}\"", wDQ(wPEB("w", "-", ast.Word{wDQ(wPE("@"))}))))
	add(sym{text: "((1 +\n2))", kind: kArith, parts: func() ast.Word { return ast.Word{wLit("1"), wLit("+"), wLit("2")} }})
	add(word("x=$v", wLit("x="), wPE("v")))
	add(word("x='q'", wLit("x="), wSQ("q")))
	for _, o := range []string{";", "&", "|", "&&", "||", ";;", "(", ")", "<", ">", ">>", ">|", "<&", ">&", "<>"} {
		add(op(o))
	}
	add(sym{text: "2>", kind: kIONum, op: ">", num: "2"})
	add(sym{text: "0<", kind: kIONum, op: "<", num: "0"})
	add(sym{text: "2>>", kind: kIONum, op: ">>", num: "2"})
	add(sym{text: "2>&", kind: kIONum, op: ">&", num: "2"})
	add(sym{text: "((1))", kind: kArith, parts: func() ast.Word { return ast.Word{wLit("1")} }})
	add(sym{text: "\n", kind: kNL})
	add(sym{text: "#c", kind: kComment})
	add(here("<<", "E", ast.Word{wLit("E")}, "E", "x\n", false))
	add(here("<<-", "E", ast.Word{wLit("E")}, "E", "\tx\n", false))
	add(here("<<", "'E'", ast.Word{wSQ("E")}, "E", "$v\n", true))
	add(here("<<", "F", ast.Word{wLit("F")}, "F", "", false))
	// a body that holds an unterminated expansion: ill-formed under an unquoted delimiter, literal text under a quoted one
	add(here("<<", "G", ast.Word{wLit("G")}, "G", "${v\n", false))
	add(here("<<", "'G'", ast.Word{wSQ("G")}, "G", "${v\n", true))
	add(here("<<", "H", ast.Word{wLit("H")}, "H", "a`b\n", false))
	add(here("<<", "I", ast.Word{wLit("I")}, "I", "a$v `c` \\$\n", false)) // unquoted delimiter, a body full of expansions
	// line continuations inside a body: removed under an unquoted delimiter, literal text under a quoted one
	add(here("<<", "J", ast.Word{wLit("J")}, "J", "foo \\\nbar\n", false))
	add(here("<<", "'J'", ast.Word{wSQ("J")}, "J", "foo \\\nbar\n", true))
	// a body whose substitution carries a redirection of its own
	add(here("<<", "L", ast.Word{wLit("L")}, "L", "k: $(c >f)\n", false))
	// unterminated here-documents: the lines that follow only look like the delimiter
	for _, u := range []sym{here("<<-", "K", ast.Word{wLit("K")}, "K", "x\n K\n", false), here("<<", "K", ast.Word{wLit("K")}, "K", "\tK\nK \n", false), here("<<-", "'K'", ast.Word{wSQ("K")}, "K", "\t K\nKK\n", true)} {
		u.noDelim = true
		add(u)
	}
	h3 := here("<<", "E", ast.Word{wLit("E")}, "E", "x\n", false)
	h3.text, h3.num = "3<<E", "3"
	add(h3)
	for _, t := range []string{"'q", `"q`, "${v", "$(", "`", "$((", "${", "${v:-"} {
		add(sym{text: t, kind: kBroken})
	}
	// substitutions that are closed but whose content is ill-formed (the error arises in a nested parse)
	for _, t := range []string{"`a |`", "$(a |)", "`!`", "$( ; )", "\"`a |`\"", "$(a `b |`)", "$((`;`))", "${v:-`a |`}"} {
		add(sym{text: t, kind: kBroken})
	}
}

func syms(texts ...string) []sym {
	out := make([]sym, len(texts))
	for i, t := range texts {
		s, ok := symTable[t]
		if !ok {
			registerDynamicSymbols() // a replay names a symbol that is generated at run time
			s, ok = symTable[t]
		}
		if !ok {
			panic("unknown symbol " + t)
		}
		out[i] = s
	}
	return out
}

func symTexts(ss []sym) []string {
	out := make([]string, len(ss))
	for i, s := range ss {
		out[i] = s.text
	}
	return out
}

// rendered source with the position of every symbol
type rendered struct {
	src   string
	start []int // byte offset of each symbol
}

// glueOK reports whether the blank between two adjacent symbols can be
// dropped without changing how the text splits into tokens (XCU 2.3): one
// of the two must be an operator, an all-digit word must not touch a
// redirection operator (it would become an IO_NUMBER), operators must not
// merge into longer ones, a comment needs its blank.
func glueOK(a, b sym) bool {
	if a.kind == kNL || b.kind == kNL || a.kind == kBroken || b.kind == kBroken || b.kind == kComment || a.kind == kComment {
		return false
	}
	if a.kind == kWord && strings.HasSuffix(a.text, "$") && !strings.HasSuffix(a.text, "$$") && (b.kind == kOp && b.op == "(" || b.kind == kArith) {
		return false // "a$" + "(" would begin a substitution
	}
	opLike := func(s sym) bool { return s.kind == kOp }
	aOp := opLike(a) || a.kind == kArith
	bOp := opLike(b) || b.kind == kHere && b.num == "" || b.kind == kArith
	if !aOp && !bOp {
		return false // two words (or word + IO number) would merge
	}
	if a.kind == kIONum || a.kind == kHere {
		return false // "2>" + word is already glued inside the symbol; "<<E" ends in a word
	}
	if b.kind == kIONum || b.kind == kHere && b.num != "" {
		return opLike(a) && a.op != "<" && a.op != ">" && false
	}
	if a.kind == kWord && (b.kind == kOp && strings.ContainsAny(b.op[:1], "<>") || b.kind == kHere) {
		digits := true
		for _, c := range a.text {
			if c < '0' || c > '9' {
				digits = false
			}
		}
		if digits {
			return false
		}
	}
	if aOp && bOp {
		// never let two operators touch: "& &", "; ;", "( (", "> >", "< &", ") )" … could merge
		return false
	}
	if a.kind == kArith || b.kind == kArith {
		return a.kind == kWord || b.kind == kWord || opLike(a) && a.op != "(" && a.op != ")" && false
	}
	return true
}

// renderTight is render with every droppable blank dropped.
func renderTight(ss []sym) rendered { return renderLayout(ss, true) }

// render writes the symbols with one blank between them (canonical layout);
// here-document bodies of pending operators follow the next newline symbol.
func render(ss []sym) rendered { return renderLayout(ss, false) }

func renderLayout(ss []sym, tight bool) rendered {
	var b strings.Builder
	r := rendered{start: make([]int, len(ss))}
	var pending []sym
	comment := false
	for i, s := range ss {
		if s.kind == kNL {
			r.start[i] = b.Len()
			b.WriteByte('\n')
			comment = false
			for _, h := range pending {
				b.WriteString(h.body)
				if h.noDelim {
					continue
				}
				if h.strip {
					b.WriteByte('\t') // <<- : the delimiter line may be indented with tabs
				}
				b.WriteString(h.delim + "\n")
			}
			pending = nil
			continue
		}
		if i > 0 && ss[i-1].kind != kNL && !(tight && !comment && glueOK(ss[i-1], s)) {
			b.WriteByte(' ')
		}
		r.start[i] = b.Len()
		b.WriteString(s.text)
		if s.kind == kComment {
			comment = true
		}
		if s.kind == kHere && !comment {
			pending = append(pending, s)
		}
	}
	r.src = b.String()
	return r
}

// hasHere reports whether a here-document operator occurs among the symbols.
func hasHere(ss []sym) bool {
	for _, s := range ss {
		if s.kind == kHere {
			return true
		}
	}
	return false
}
