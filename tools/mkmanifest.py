#!/usr/bin/env python3
"""Regenerates /verif/MANIFEST.json from the table below (kept next to the checks so the two stay in step)."""
import json, subprocess, os

CHECKS = {
 # id: (category, technique, text, note, design_ref)
 "C12": ("model_checking",
   "bounded-exhaustive enumeration of pattern × subject × mode against a reference matcher",
   "Every pattern up to 3 (quick) / 5 (thorough) symbols over the 12-symbol pattern alphabet is run against every subject up to 4 symbols over the 7-symbol subject alphabet in all four modes, plus a fixed block for classes, multi-byte runes, regexp metacharacters and regexp-repetition shapes (a{2}, a{1,}, (a), a|b, ^a$) a bracket-expression family of up to 7 symbols (negation, leading ']', ≤ 3 members, context) and all ordered pairs of short patterns (for a list the result is the shortest/longest portion over all its patterns; each pair [p1, p2] is followed in the same process by the single pattern 'p1|p2', so that nothing a call leaves behind leaks into the next); each call is compared with an independent backtracking matcher. Complete within the stated alphabet and bounds, nothing sampled.",
   "Trusts the reference matcher (patmodel.go); patterns POSIX leaves undefined may fail or agree with the model; longer patterns / other characters are outside the bound.",
   "DESIGN.md §6 C12, §4.3"),
 "C14": ("model_checking",
   "bounded-exhaustive enumeration of segment words × IFS settings against a reference splitter",
   "Every word of up to 6 (quick) / 7 (thorough) segments over the 8 segment kinds of the statement, under 13 IFS settings (incl. letters, characters from the upper half of ASCII, and the white-space-only values newline and blank, for which white space outside IFS is a segment kind of its own) and 3-4 realisations (literal parts, parameter expansions, single quotes, and for words of ≤ 4 segments the literal word of ${u:-…}), 9-10 segment kinds incl. an unknown tilde-prefix and an unquoted expansion that produces nothing, words of 1-40 repetitions of 9 units, (literal parts, parameter expansions, single quotes), is expanded by the real Expand and compared with a splitter written from the statement; additionally histories on ONE environment: every sequence of ≤ 3 (thorough 4) IFS settings with 5 probe words expanded after each change, and every pair (IFS1, probe) then (IFS2, word ≤ 3 characters over {a space , : é tab}). Complete within those bounds.",
   "Trusts the reference splitter (c14Ref); words are built as AST values with NoGlob set; longer words and other IFS values are outside the bound.",
   "DESIGN.md §6 C14, §4.2"),
 "C11": ("model_checking",
   "bounded-exhaustive enumeration of expression trees × environments against a reference evaluator",
   "All expression trees of depth ≤ 1 over every operator and 16 operands under 64 variable environments in 4 layouts, plus every depth-1 tree in every depth-1 context (one-hole depth 2; thorough: complete depth 2 for binary/logical roots over 4 operands) and every depth-1 tree (faulty ones included) as the operand C skips in 0&&h, 1||h, 1?0:h, 0?h:1 combined with 4 evaluated assignments/increments in 6 contexts, are evaluated by the real Eval and compared (value, error/no error, variable store) with a tree-walking int64 evaluator; expressions C leaves undefined are detected and excluded. Complete within those bounds.",
   "Trusts the reference evaluator; which of several errors is reported is not compared; for unsequenced operators any operand evaluation order is accepted; schedule dependence of Eval is C06's subject.",
   "DESIGN.md §6 C11, §4.4"),
 "C13": ("model_checking",
   "bounded-exhaustive enumeration of the parameter-expansion product against a table-driven reference model",
   "The complete product of 10 parameter kinds × every operator form × word/pattern menus × 6 positions × 8 variable states × 6 positional lists × nounset × 4 IFS settings (≈1.6 M cases) is parsed by the real parser, expanded by the real Expand and compared (fields, error type, variable store, positional parameters read back unchanged) with an independent model of the POSIX table, $@/$*, nounset and the C14 splitter; plus histories on ONE environment: every sequence of ≤ 3 steps (IFS kept, set to one of 4 values or unset, then one of 8 words around $* and $@) for two positional lists, each step compared with the table.",
   "Trusts xpmodel.go; constructs POSIX leaves open ($- empty, ${#@}, $@/$* without positionals under non-colon operators, removal on $*, quoted word of := outside quotes) are only required not to panic; values and words outside the menus are not explored.",
   "DESIGN.md §6 C13, §4.2"),
 "C15": ("model_checking",
   "bounded-exhaustive enumeration of strings × quoting styles × modes × environments with an intrinsic oracle",
   "Every string of up to 4 (quick) / 5 (thorough) characters over 21 shell-significant characters (incl. / . : CR TAB) is written under single, double, backslash and mixed quoting, parsed by the real parser and expanded under all 6 ExpModes in 5 adversarial environments (IFS from the alphabet, HOME, positional parameters, a scratch working directory holding files named like the strings); the result must be exactly one field equal to the string, in Pattern mode a pattern whose elements are all literal and which, given to pattern.Match, matches the string itself and none of its neighbours (also for every string of ≤ 5 characters over three families of regexp metacharacters); every string of ≤ 3 characters also as the quoted word of ${u:-…}, ${u-…} and ${a:+…} outside double quotes.",
   "Backslash-newline excluded from the backslash style; Pattern mode judged by the pattern model of C12; longer strings / other characters outside the bound.",
   "DESIGN.md §6 C15"),
 "C16": ("model_checking",
   "bounded-exhaustive enumeration of directory trees × patterns against a reference walk",
   "Every tree of ≤ 2 entries (9 names incl. names with a backslash × 7 kinds incl. dot files, dangling symlinks, symlinked directories, names with pattern characters and multi-byte) and every 3-entry tree over a reduced kind set is built in a scratch directory and globbed with every pattern of ≤ 3 (quick) / 4 (thorough) symbols over {a b * ? [ ] . / \\} plus absolute (also with an escaped leading separator), multi-level and escaped-component shapes, and a large tree (12 files and 12 directories per level, four levels) with 33 patterns; the result must equal a component-wise walk with the reference matcher: same paths, sorted, no duplicates, all existing.",
   "File-system primitives (Lstat/Stat/ReadDir) are taken as facts; patterns with an ill-formed component only must not panic; absolute patterns are explored under the scratch root only.",
   "DESIGN.md §6 C16, §4.3"),
 "C20": ("model_checking",
   "explicit-state BFS over operation histories of the real ExecEnv against a map model",
   "Breadth-first search to depth 4 (quick) / 6 (thorough) from 8 initial environments over an alphabet of ≈ 250 Set/Unset/Expand/Eval operations (arithmetic expansions that read $1, $2, ${10}, $# with numeric and non-numeric positionals; Eval incl. short-circuit forms whose skipped operand assigns or faults; Expand incl. 30 composite forms ${a op INNER} whose word assigns, fails or does neither, 6 words in which the assigning expansion is surrounded by other text, removal operators whose pattern assigns, tilde words with HOME set/unset); many-variable histories (1-24 names); second phase without state merging: every history of ≤ 4 (thorough 5) operations over a reduced alphabet in which the observation is itself an operation on ordinary, special and positional names; every operation is applied in every distinct reachable store state (successor = replay of the shortest history on a fresh instance + 1 operation); after every transition Walk, Get of 17 names, Args, Opts, Aliases and the AST passed in are compared with a plain map model.",
   "Trusts the map model; canonical state drops Export/ReadOnly (no operation of the alphabet observes them); process environment cleared so NewExecEnv starts from {IFS}.",
   "DESIGN.md §6 C20, §2 E3"),
 "C02": ("model_checking",
   "bounded-exhaustive enumeration of symbol strings and grammar derivations against a reference grammar model",
   "Every string of ≤ 3 symbols over the 59-symbol alphabet, ≤ 4 over the 38-symbol core, ≤ 5 over 20 and ≤ 6 over 16 symbols (thorough: one more each) is classified by an independent recursive-descent model of XCU 2.10 that also builds the expected AST; every accepted string is parsed by the real parser and the position-free AST dump, the comments and the documented node shapes must agree exactly. The same for the derivation sets (D0-D3, DH, DC = a closer directly after a redirected compound command, the word menu and the generated word space WG: every word of ≤ 2 parts from a 49-part menu / 3 parts from a 21-part menu at 5 positions) in canonical and tight layout, multi-line layout and the layout with a newline after every ';' the grammar allows one after, and for the accepted single-symbol mutants; plus every arithmetic text of ≤ 5 (6) characters over {1 ( ) + blank} with balanced parentheses as $((…)), ((…)) and inside double quotes (accepted, text kept).",
   "Trusts gram.go (cross-validated against dash/bash at design time); verdicts POSIX leaves open are skipped; programs longer than the bounds are covered only by the derivation sets.",
   "DESIGN.md §6 C02, §4.1"),
 "C03": ("model_checking",
   "bounded-exhaustive enumeration of symbol strings and single-symbol mutations, classified by a reference grammar model",
   "Every string of the C02 alphabets/bounds that the grammar model rejects (≈ 2·10^7 in the quick tier) must be rejected by the real parser with a parser.Error that carries the caller's name and a position inside the consumed text at the start of a token or construct; plus all single-symbol deletions, insertions, duplications and adjacent swaps of generated well-formed programs, every word of the word menu placed at the name positions (for variable, function name) where the model rejects it, the insertion of a comment together with its newline at every position, all pairs of 8 here-document symbols (quoted/unquoted delimiter, well-formed/ill-formed body) in 6 arrangements, 8 closed substitutions with ill-formed content and 3 unterminated here-documents (the body only holds look-alikes of the delimiter line: blank-indented under <<-, tab-indented under <<, followed by a blank) at 9 positions, and every arithmetic text of ≤ 5 (6) characters over {1 ( ) + blank} with more ')' than '(' as $((…)) and ((…)) in 11 host sentences.",
   "Trusts gram.go for valid/invalid; which of several possible errors is reported is not compared; strings whose quotes pair up across symbols are skipped.",
   "DESIGN.md §6 C03, §4.1"),
 "C04": ("model_checking",
   "bounded-exhaustive enumeration of accepted sources with an intrinsic position oracle",
   "Every source of the C02 spaces that the real parser accepts (all symbol strings of the tier's alphabets/bounds; derivation sets D0-D3, DH, DC, the word menu and the generated word space WG in one-line, tight, multi-line, ';'-newline and end-of-input (no final newline) layouts, each also with multi-byte words) is walked with a typed position checker: every documented position field must spell its token in the source, Pos() <= End(), both inside the source, non-empty nodes have non-zero End(), children inside parents, siblings increasing, adjacent word parts touch, and for words without substitutions source[Pos:End) equals the printed node.",
   "Intrinsic to (source, AST); aliases and line continuations are excluded by the property; containment is not demanded for nodes that carry a here-document; Comment.End excluded.",
   "DESIGN.md §6 C04"),
 "C06": ("model_checking",
   "stateless model checking of the implementation: controlled scheduler + DFS over all interleavings of the hooked lexer/parser goroutine operations",
   "go.sh is built with -tags verif; every synchronisation operation between the parser and its lexer goroutines (token hand-off including both outcomes of an ambiguous select, cancel, here-document queue, nested lexer join, error slots, return of the call) is a point owned by a cooperative scheduler. For every ParseCommands input of ≤ 3 (quick) / 4 (thorough) pieces over a 15-piece alphabet (incl. a numbered here-document whose delimiter never comes), 19 longer inputs (preemption bound ≤ 2; incl. two here-documents with the input ending after the first delimiter line), the generator's lists of leaf commands and default-filled compounds with each single-symbol deletion (preemption bound ≤ 1), every input of ≤ 2 (thorough 3) pieces plus 14 nested-substitution inputs with the reader failing from / once at every rune index, and every Eval input of ≤ 4 / 5 tokens over a 12-token alphabet plus 23 longer ones (faults met while the lexer is about to reject a later character, short-circuit operands), ALL schedules are enumerated (≈ 7·10^4 executions, 8·10^5 transitions in the quick tier): one result per input, no deadlock, nothing alive or active after the return. Schedules are replayed for determinism; a free-running pass (GOMAXPROCS 1/2/16) must only produce explored results, and the same bodies run under the race detector, which also runs 484 ordered pairs of calls concurrently (results equal to the solo results; shared package-level state shows as a race).",
   "The controller owns the hooked operations only: unhooked unsynchronised accesses and memory-model effects are seen by the supplementary -race pass alone, synchronisation added next to a hooked operation by the delay runs (every parse and reader-fault body once per hooked point, free-running with the goroutine that reaches the point held back until the others can go no further: the observation must be one the exploration produced, and a delivered fault must not end in a nil error); executions per input are capped (20 000 / 200 000).",
   "DESIGN.md §6 C06, §2 E2, §3"),
 "C07": ("model_checking",
   "explicit-state search over command streams (state = reader offset, transition = one ParseCommands call)",
   "Every stream that concatenates ≤ 3 (quick) / 4 (thorough) commands from an 85-entry menu (single-line, multi-line compound, here-documents in every position incl. <<- and quoted delimiters, trailing comments, line continuations, blank lines, multi-line quotes/substitutions), each also with the last command lacking its final newline, and every generator derivation (D0, D1, DH, DC, word menu; three layouts incl. a newline after every inner ';') as first command followed by each of 5 continuations, is read by successive ParseCommands calls from a strings.Reader and a custom RuneScanner; after every call the offset must be the (constructed) end of that command and the result must equal the result of parsing that command's text alone; blank lines give empty results.",
   "Command boundaries are known by construction; comment-only lines are excluded (pinned by go.sh's own tests); streams beyond the menu are not explored.",
   "DESIGN.md §6 C07, §2 E3"),
 "C08": ("model_checking",
   "stateless model checking of the implementation (controlled scheduler + DFS) over a bounded-exhaustive space of here-document programs",
   "51 host templates with 1-3 here-document sites (simple command, pipes, lists, every compound form, function bodies, compound redirections, inside $( ) and backquotes, before && / | + newline, numbered, several on one or on different lines, several pending at a newline inside a grammar linebreak) × {<<, <<- with 0-3 tabs before the delimiter line} × 6 delimiter quotings (E, 'E', \"E\", E\\F, E\"\", ''E) × bodies from a 17-line menu (empty lines, delimiter look-alikes, tab-indented lines, $v, $(c), `c`, backslashes, lines ending in the delimiter text after an expansion): ≈ 5·10^4 programs in the quick tier, each run under ALL schedules of the lexer/parser pair (one site) or all schedules with ≤ 1 preemption (more sites, which contains both extreme schedules). Per redirection, in operator order: the printed body is byte-identical to the body written, Delim is the delimiter line, the body is split into expansions iff no part of the delimiter was quoted; the same under every schedule; no deadlock on the here-document queue. Many-site programs (4-12 here-documents on one line, per group line, per pipeline stage). Second phase: every generator sentence that carries a here-document (D0, D1, DH; thorough D2, DC) in one-line and multi-line layout under all schedules with ≤ 1 preemption, judged against the grammar model's AST.",
   "Backslash-newline inside bodies is outside the alphabet; scheduler assumptions as for C06.",
   "DESIGN.md §6 C08, §2 E2"),
 "C09": ("model_checking",
   "bounded-exhaustive enumeration of sentences × token boundaries × layout changes with a metamorphic oracle",
   "Every accepted sentence among all strings of ≤ 3 (quick) / 4 (thorough) symbols over a 44-symbol alphabet and the derivation sets D0, D1, DH and the word menu (thorough: D2), each in one-line and multi-line layout, is varied at every token boundary, including the boundaries inside '2>' and '<<E': two blanks, tab, no blank where the tokens stay the same, backslash-newline in three forms, leading/trailing blank, comment before a newline or at end of input (text k, and a text made of ` ' \" ) k \\; inside multi-line substitutions 8 texts with quote and bracket characters), newline for ';' and extra newline where the grammar model admits them. Every single application must parse to the same program and return the inserted comment exactly once, in order.",
   "The untransformed parse is the oracle; the grammar model only decides where a change is admissible; pairs of changes are not explored.",
   "DESIGN.md §6 C09"),
 "C10": ("fault_enumeration",
   "complete enumeration of single read-fault positions over a bounded-exhaustive sentence set",
   "For every accepted sentence among all strings of ≤ 3 (quick) / 4 (thorough) symbols over a 43-symbol alphabet and the derivation sets D0, D1, word menu (thorough: D2) in two layouts, the source reader is made to fail from every rune index k in [0, len], as io.RuneScanner, as io.Reader (also at every byte offset inside a multi-byte character) and as io.RuneScanner whose error wraps io.EOF; if the fault was delivered (or k lies inside the consumed text) the error must satisfy errors.Is(err, sentinel), and a nil error is only allowed with the fault-free result. Additionally every sentence of the string space that the parser rejects, and every accepted one under a transient (one-shot) fault, at every k: the call must return with a non-nil error that is the read error or a parser.Error.",
   "For io.Reader delivery to the parser is hidden behind bufio, so the rule is phrased on k versus the fault-free consumption; multiple faults are not explored.",
   "DESIGN.md §6 C10, §2 E4"),
 "C17": ("model_checking",
   "bounded-exhaustive enumeration of alias tables × symbol strings against a reference replacement",
   "Every alias table with ≤ 2 entries (thorough: ≤ 3) over 3 names and a 25-value menu (the reference replacement descends into $( ) and backquote tokens of values) (chains, cycles, self reference, trailing blanks, operators, reserved words, assignments, redirections, quoted names, values holding two commands that are aliases, values containing $( ), backquote, $(( )) and ${ } expansions) plus 8 fixed three-entry chains and 140 three-entry tables whose outer value holds several commands that are aliases × every string of ≤ 3 (thorough: ≤ 4) symbols over a 13-symbol alphabet: the reference model performs the textual replacement on the symbol string (command-name positions from the grammar model, recursion guard, trailing-blank rule, cross-checked against bash and dash), the unfolded text is parsed by the real parser without aliases and must give the same position-free AST; 12 compound sentences with alias names at every kind of position (case patterns, for words, redirection targets, function names, after then/do/else) × 28 tables; every run terminates. Also: command substitutions in the source ($( ), backquotes, inside double quotes and ${v:-…}) holding every command list of ≤ 2 symbols over {x y a ; | 'x'} and 5 compound forms, for every table of ≤ 2 entries; and, at text level, one alias whose value is every string of ≤ 3 (thorough 4) characters over 19 significant characters × 6 continuations of the source (alias names x, x-1, .., 2x, ,x, x+), compared with the parse of the text in which the word is replaced.",
   "Only the substitution is modelled, the unfolded text goes through the real parser; alias values with newlines are covered for termination only (C01).",
   "DESIGN.md §6 C17"),
 "C01": ("model_checking",
   "bounded-exhaustive enumeration of sources × source kinds × alias tables × GODEBUG settings in crash-isolated worker processes",
   "Every symbol string of the tier's alphabets/bounds and every character string of ≤ 5 (quick) / 6 (thorough) characters over the 14 significant shell characters is parsed by ParseCommands and ParseCommand from a string, a []byte, a one-byte io.Reader, a bufio.Reader and a custom RuneScanner, the shorter ones also under 7 adversarial alias tables, plus 32 constructs repeated or nested n = 1…24 (thorough 64) times, plus every alias value of ≤ 3 (thorough 4) characters over 17 significant characters in 3 tables × 7 sources, all under GODEBUG=panicnil=0 and =1 (≈ 5·10^7 calls in the quick tier). Each case runs in a GOMAXPROCS=1 worker subprocess that announces the case first, so a crash from a background goroutine, the runtime's deadlock abort or a stalled worker is attributed to it; the result must be commands and/or an error. Schedule phase (workers built with -tags verif): for ≈ 150 sources (every here-document template of C08, every construct repeated or nested once and twice, inputs ending inside a here-document, substitution or quote) the controlled scheduler explores every interleaving of the lexer and parser goroutines with ≤ 1 (thorough 2) preemptions; under each the call must return (no state in which the caller has not returned and no goroutine is enabled), and so must every delay run (one free run per hooked point with that goroutine held back).",
   "Main phase free-running: one OS-chosen schedule per case; the schedule phase checks termination only (results under every schedule are C06's and C08's subject); a hang is detected by the Go runtime's deadlock detector or a 120 s no-progress watchdog; unbounded random programs are not explored.",
   "DESIGN.md §6 C01"),
 "C05": ("model_checking",
   "bounded-exhaustive enumeration of accepted programs × all 256 printer configurations with a metamorphic round-trip oracle",
   "Every program the parser accepts among all strings of ≤ 4 (quick) / 5 (thorough) symbols over a 32-symbol alphabet and the derivation sets D0-D2, DH (a here-document, optionally a multi-line substitution, followed on its line by each compound form) and DC (thorough: D3) in one-line and multi-line layout is printed under 128 (quick: all 64 combinations of the six structural options × {tab, 4 spaces}) / all 256 Config combinations, the generated word space WG (as argument, command name/assignment and redirection target) under the 16 Configs that vary the word-level options; each distinct output is parsed again and must have the same semantic skeleton (and-or lists with async flag, pipelines, commands, words and parts, redirections, here-document bodies byte for byte).",
   "The original parse is the oracle; `;`, newline and no separator are identified; programs outside the generated sets are not explored.",
   "DESIGN.md §6 C05"),
 "C18": ("model_checking",
   "bounded-exhaustive enumeration of programs × 256 configurations (idempotence, purity) and of all single write-fault positions",
   "For the programs of C05 under 128 (quick) / all 256 Configs: printing the re-parsed output gives identical bytes, two prints of one tree are equal, and a reflection dump of every field of the tree (positions, Sep/SepPos) is identical before and after Fprint. Writer faults: for every program and 3 Configs a writer that accepts k bytes and then fails, for every k below the output length, and three outputs of 9-14 KB (one line, 700 lines, 400 here-documents) × 11 fault positions around bufio's buffer boundaries, must make Fprint return a non-nil error, without panic and with the tree unchanged.",
   "The deep comparison runs after every 4th (quick: 32nd) configuration and after the last; an output that does not re-parse is reported here as well as by C05.",
   "DESIGN.md §6 C18"),
 "C19": ("model_checking",
   "bounded-exhaustive enumeration of inputs per entry point in crash-isolated worker processes",
   "Every AST the parser returns for the C01 corpora and for the derivation sets (D0-D2, DH, DC, word menu, generated word space WG at 5 positions; two layouts) is measured (Pos/End of every node), printed under 16 (quick) / 256 Configs and every distinct word in it (incl. \"$@\" as the word of an operator with no positional parameters) expanded under all 32 combinations of the mode flags; every token string of ≤ 4 / 5 tokens over a 20-token alphabet goes through Eval, every pattern of ≤ 4 / 5 characters over 12 pattern characters through Match (6 subjects, mode combinations) and over 9 characters through Glob; all 2^14 Option values; the repetition family (45 constructs × n = 1…24); nesting depths 1-40 × 12 indentation styles; all under GODEBUG=panicnil=0 and =1. No panic, no process death, only documented error types.",
   "Oracle is 'terminates without panic, documented error types'; values are C11-C16's subject.",
   "DESIGN.md §6 C19"),
}

def main():
    props = [json.loads(l) for l in open('/verif/properties.jsonl')]
    checks, na = [], []
    for p in props:
        i = p['id']
        if i in CHECKS:
            cat, tech, text, note, ref = CHECKS[i]
            checks.append({
                "property_id": i,
                "quick_cmd": f"./check {i} quick",
                "thorough_cmd": f"./check {i} thorough",
                "evidence_file": f"/verif/evidence/{i}.json",
                "replay_cmd_template": "./check replay {path}",
                "engine": "vcheck",
                "level_claimed": {"category": cat, "text": text, "design_ref": ref},
                "level_note": note,
                "technique": tech,
            })
        else:
            na.append({"property_id": i, "reason": "check not built yet in this revision of /verif (bounded-exhaustive check designed in DESIGN.md §6, implementation pending)"})
    hooks = []
    try:
        out = subprocess.check_output(["git", "-C", "/repo", "log", "--format=%h %s"], text=True)
        hooks = [l.split()[0] for l in out.splitlines() if l.split(' ', 1)[1].startswith("verif:")]
    except Exception:
        pass
    m = {
        "version": 1,
        "setup_cmd": "./check build && ./check buildrace",
        "hooks": {
            "guard": "verif",
            "enable": "go build -tags verif (done by ./check for the schedule-exploring checks C06 and C08; every other check uses the production build)",
            "baseline_off_cmd": "cd /repo && GOFLAGS=-mod=mod GOPROXY=off GOSUMDB=off GOTOOLCHAIN=local go test -json -vet=off -count=1 -timeout 25m ./...",
            "source_commits": hooks,
            "add_only": True,
        },
        "engines": [
            {"name": "vcheck", "path": "/verif/vcheck", "serves_properties": sorted(CHECKS),
             "kind_free_text": "hand-written bounded-exhaustive explorers in Go: E1 symbol-string/derivation enumeration against reference models, E2 controlled scheduler + stateless DFS over hooked lexer/parser goroutines, E3 explicit-state BFS over API histories, E4 single-fault enumeration; sharded over worker subprocesses with crash/deadlock/hang attribution"},
        ],
        "checks": checks,
        "not_applicable": na,
        "notes": "All checks rebuild vcheck against /repo's working tree (replace directive) before running. Known findings: /verif/known_findings.txt. Seeded changes used to test the checks: /verif/seeded/.",
    }
    json.dump(m, open('/verif/MANIFEST.json', 'w'), indent=1)
    print("checks:", len(checks), "not_applicable:", len(na))

main()
