package main

// C12 — pattern matching in four removal modes.
//
// Space: all patterns ≤ Lp over Σp × all subjects ≤ Ls over Σs × 4 modes, a
// fixed exhaustive block for classes / multi-byte / regexp metacharacters,
// and all ordered pairs of patterns ≤ 2 for the "one of them" clause.
// Oracle: patmodel.go (direct backtracking matcher).

import (
	"encoding/json"
	"fmt"
	"strings"

	"github.com/hattya/go.sh/pattern"
)

type c12Case struct {
	Patterns []string `json:"patterns"`
	Mode     uint     `json:"mode"`
	Subject  string   `json:"subject"`
}

var c12Modes = []pattern.Mode{
	pattern.Prefix | pattern.Smallest, pattern.Prefix | pattern.Largest,
	pattern.Suffix | pattern.Smallest, pattern.Suffix | pattern.Largest,
}

func c12Call(pats []string, m pattern.Mode, s string) (got string, err error, pan interface{}) {
	defer func() {
		if e := recover(); e != nil {
			pan = e
		}
	}()
	got, err = pattern.Match(pats, m, s)
	return
}

// c12Judge compares one call with the model. It returns "" if fine, otherwise
// (class, detail).
func c12Judge(pats []string, m pattern.Mode, s string) (class, detail string, nontrivial bool) {
	var es [][]pelem
	status := patWellFormed
	for _, p := range pats {
		e, st := parsePattern([]rune(p))
		switch {
		case st == patMalformed:
			status = patMalformed
		case st == patGrayAny && status != patMalformed:
			status = patGrayAny
		case st == patGray && status == patWellFormed:
			status = patGray
		}
		es = append(es, e)
	}
	got, err, pan := c12Call(pats, m, s)
	if pan != nil {
		return "panic", fmt.Sprintf("Match(%q, %d, %q) panicked: %v", pats, m, s, pan), true
	}
	isErr := err != nil && err != pattern.NoMatch
	if status == patGrayAny {
		return "", "", false
	}
	switch status {
	case patMalformed:
		if !isErr {
			return "malformed-accepted", fmt.Sprintf("Match(%q, %d, %q) = %q, %v; the pattern is malformed and must give an error", pats, m, s, got, err), true
		}
		return "", "", false
	case patGray:
		if isErr {
			return "", "", false
		}
	default:
		if isErr {
			return "wellformed-error", fmt.Sprintf("Match(%q, %d, %q) fails with %v; the pattern is well formed", pats, m, s, err), true
		}
	}
	want, ok := refMatch(es, m&pattern.Prefix != 0, m&pattern.Largest == 0 && m&pattern.Smallest != 0, []rune(s))
	nontrivial = ok && want != "" && want != s
	// (for a list of patterns "the pattern matches" means "one of them does": the extent is the shortest / longest
	// over all of them — refMatch already takes the list)
	if ok != (err == nil) || ok && want != got {
		cl := "mismatch"
		if status == patGray {
			cl = "gray-mismatch"
		}
		w := "NoMatch"
		if ok {
			w = fmt.Sprintf("%q", want)
		}
		return cl, fmt.Sprintf("Match(%q, %d, %q) = %q, %v; model: %s", pats, m, s, got, err, w), true
	}
	return "", "", nontrivial
}

func init() {
	register(&check{
		id:    "C12",
		level: "model_checking",
		rule: "every pattern string ≤ Lp over Σp={a b * ? [ ] ! ^ - \\ . \\n} × every subject ≤ Ls over Σs={a b - ] [ . \\n} × 4 modes, " +
			"plus a fixed block (classes, multi-byte, regexp metacharacters) and all ordered pattern pairs; a case is non-trivial when the model finds a match that is neither empty nor the whole subject, or when impl and model disagree",
		assume: []string{"reference matcher patmodel.go is trusted (cross-validated at design time against bash case/${v#p})",
			"patterns whose meaning POSIX leaves open ([[.x.]], [[=x=]], unknown [:class:], reversed ranges) may either fail or give the model's answer"},
		run:    c12Run,
		replay: c12Replay,
	})
}

func c12Replay(raw json.RawMessage) error {
	var c c12Case
	if err := json.Unmarshal(raw, &c); err != nil {
		return err
	}
	cl, d, _ := c12Judge(c.Patterns, pattern.Mode(c.Mode), c.Subject)
	got, err, pan := c12Call(c.Patterns, pattern.Mode(c.Mode), c.Subject)
	fmt.Printf("Match(%q, %d, %q) = %q, err=%v, panic=%v\n", c.Patterns, c.Mode, c.Subject, got, err, pan)
	if cl != "" {
		return fmt.Errorf("%s: %s", cl, d)
	}
	return nil
}

func c12Run(w *W) {
	pa := []rune("ab*?[]!^-\\.\n")
	sa := []rune("ab-][.\n")
	// bounds: (Lp, Ls) pairs explored completely
	type bound struct{ lp, ls int }
	bounds := []bound{{3, 4}, {4, 2}}
	if w.thorough() {
		bounds = []bound{{4, 4}, {5, 3}}
	}
	seenPS := map[[2]int]bool{}
	for _, b := range bounds {
		var subjects []string
		genRunes(sa, b.ls, func(s []rune) { subjects = append(subjects, string(s)) })
		genRunes(pa, b.lp, func(p []rune) {
			if !w.Mine() {
				return
			}
			if w.TimeUp() {
				return
			}
			ps := string(p)
			w.Announce("pattern " + ps)
			w.Count("states", 1) // one pattern = one model state
			for _, s := range subjects {
				// skip the part of the product an earlier bound already covered
				if seenPS[[2]int{len(p), len([]rune(s))}] {
					continue
				}
				for _, m := range c12Modes {
					c12One(w, []string{ps}, m, s)
				}
			}
		})
		for lp := 0; lp <= b.lp; lp++ {
			for ls := 0; ls <= b.ls; ls++ {
				seenPS[[2]int{lp, ls}] = true
			}
		}
	}
	// fixed block: classes, multi-byte runes, every regexp metacharacter as an ordinary character
	meta := []string{"+", "(", ")", "|", "{", "}", "$", "^", ".", "é", "日", "\\+", "\\é", "[+]", "[.]", "[é日]", "[!é]", "[a-é]",
		"[[:alpha:]]", "[[:digit:]]", "[![:space:]]", "[[:upper:][:digit:]]", "[[:punct:]]", "[[:alpha:]-]", "[]-a]", "[a\\]b]", "[\\\\]", "[\\-a]", "[a\\-b]", "[\\!a]", "[\\^a]",
		"a{2}", "a{1,}", "a{1,2}", "{1}", "a{,2}", "(a)", "a|b", "a+", "^a$", "a.", "\\{2}", "[{]2}", "é{2}"}
	glue := []string{"", "*", "?", "a"}
	subj2 := []string{"", "+", "a+", "+a", "(", ")", "|", "{", "}", "$", "^", ".", "é", "日", "aé", "éa", "é日", "a", "A", "1", " ", "-", "]", "\\", "!", "a\nb", "\n", "ab", "a.b", "é\n日", "\t", "aa", "a{2}", "a{1,}", "a{1,2}", "{1}", "a{,2}", "(a)", "a|b", "^a$", "{2}", "éé", "é{2}", "b"}
	for _, g1 := range glue {
		for _, mt := range meta {
			for _, g2 := range glue {
				if !w.Mine() {
					continue
				}
				ps := g1 + mt + g2
				w.Announce("pattern " + ps)
				w.Count("states", 1)
				for _, s := range subj2 {
					for _, m := range c12Modes {
						c12One(w, []string{ps}, m, s)
					}
				}
			}
		}
	}
	// bracket expressions up to 7 symbols: optional negation, optional leading ']', ≤ 3 members, closing ']', with context
	var members []string
	genRunes([]rune("ab*?[\\-.!^]"), 3, func(m []rune) { members = append(members, string(m)) })
	subj4 := []string{"", "a", "b", "*", "?", "[", "]", "\\", "-", ".", "!", "^", "ab", "a]", "]a", ".]", "a\n"}
	for _, neg := range []string{"", "!", "^"} {
		for _, lead := range []string{"", "]"} {
			for _, mem := range members {
				if !w.Mine() {
					continue
				}
				for _, ctx := range [][2]string{{"", ""}, {"a", ""}, {"", "*"}, {"?", "a"}} {
					ps := ctx[0] + "[" + neg + lead + mem + "]" + ctx[1]
					w.Announce("pattern " + ps)
					w.Count("states", 1)
					for _, s := range subj4 {
						for _, m := range c12Modes {
							c12One(w, []string{ps}, m, s)
						}
					}
				}
			}
		}
	}
	// bracket members as ITEMS: an item is an ordinary character, a special one or an escaped one; every sequence of
	// ≤ 3 items (an escaped hyphen between two members is 4 characters: [a\-b])
	items := []string{"a", "b", "-", ".", "+", ",", "\\-", "\\\\", "\\]", "\\a", "\\^", "\\!", "\\[", "*", "?"}
	var seqs []string
	var recI func(cur string, n int)
	recI = func(cur string, n int) {
		if n > 0 {
			seqs = append(seqs, cur)
		}
		if n == 3 {
			return
		}
		for _, it := range items {
			recI(cur+it, n+1)
		}
	}
	recI("", 0)
	subj5 := []string{"", "a", "b", "-", ".", "+", ",", "\\", "]", "^", "!", "[", "*", "?", "c"}
	for _, neg := range []string{"", "!"} {
		for _, seq := range seqs {
			if !w.Mine() {
				continue
			}
			ps := "[" + neg + seq + "]"
			w.Announce("pattern " + ps)
			w.Count("states", 1)
			for _, s := range subj5 {
				c12One(w, []string{ps}, pattern.Prefix|pattern.Largest, s)
				c12One(w, []string{ps}, pattern.Suffix|pattern.Smallest, s)
			}
		}
	}
	// repetition: one element repeated n = 1 … 24 times against subjects of length n-1, n, n+1 (and lists of n patterns)
	for n := 1; n <= 24; n++ {
		if !w.Mine() {
			continue
		}
		w.Announce(fmt.Sprintf("repetition %d", n))
		for _, u := range []string{"a", "?", "[ab]", "\\*", "[!a]", "[[:alpha:]]", "é", "[a-c]", "\\a"} {
			ps := strings.Repeat(u, n)
			w.Count("states", 1)
			for _, c := range []string{"a", "b", "*", "é"} {
				for _, m := range []int{n - 1, n, n + 1} {
					if m < 0 {
						continue
					}
					for _, mode := range c12Modes {
						c12One(w, []string{ps}, mode, strings.Repeat(c, m))
						c12One(w, []string{ps + "*"}, mode, strings.Repeat(c, m))
					}
				}
			}
		}
		if n <= 5 {
			for _, u := range []string{"*", "a*", "*a", "?*"} {
				ps := strings.Repeat(u, n)
				for _, sub := range []string{"", "a", "aa", "aaaaaa", "ab", "ba", "aabaa"} {
					for _, mode := range c12Modes {
						c12One(w, []string{ps}, mode, sub)
					}
				}
			}
		}
		// n patterns in one list: only the last one matches
		var list []string
		for i := 0; i < n; i++ {
			list = append(list, "x"+strings.Repeat("y", i))
		}
		list = append(list, "a?")
		for _, sub := range []string{"ab", "a", "xy", "abc", "x" + strings.Repeat("y", n-1)} {
			for _, mode := range c12Modes {
				c12One(w, list, mode, sub)
			}
		}
	}
	// pattern lists: "several patterns match exactly when one of them does"
	var small []string
	genRunes([]rune("ab*?[]\\"), 2, func(p []rune) { small = append(small, string(p)) })
	var subj3 []string
	genRunes([]rune("ab]"), 3, func(s []rune) { subj3 = append(subj3, string(s)) })
	for _, p1 := range small {
		for _, p2 := range small {
			if !w.Mine() {
				continue
			}
			w.Announce("patterns " + p1 + " | " + p2)
			w.Count("states", 1)
			for _, s := range subj3 {
				for _, m := range c12Modes {
					c12One(w, []string{p1, p2}, m, s)
					// and, in the same process, the ONE pattern "p1|p2" ('|' is an ordinary character): nothing a call
					// leaves behind (a cache keyed by the joined text, say) may leak into another call
					c12One(w, []string{p1 + "|" + p2}, m, s)
					c12One(w, []string{p1 + "|" + p2}, m, s+"|"+s)
				}
			}
		}
	}
}

func c12One(w *W, pats []string, m pattern.Mode, s string) {
	w.Count("evaluations", 1)
	w.Count("transitions", 1)
	w.Count("traces_validated_against_impl", 1)
	cl, d, nt := c12Judge(pats, m, s)
	if nt {
		w.Count("distinct_nontrivial", 1)
		w.Sample(c12Case{pats, uint(m), s})
	}
	if cl != "" {
		w.Violation(c12Class(cl, pats, s), c12Case{pats, uint(m), s}, d)
	}
}

// c12Class attributes a disagreement to a diagnosis class (a candidate
// known-finding key).  Anything not recognised stays unattributed.
func c12Class(cl string, pats []string, s string) string {
	_ = strings.Contains
	return cl
}
