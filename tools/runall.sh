#!/bin/bash
# usage: tools/runall.sh [quick|thorough] [ids…]   runs the registered checks one after the other, one summary line each
cd /verif
tier=${1:-quick}; shift
ids="$@"; [ -z "$ids" ] && ids=$(python3 -c "import json;print(' '.join(c['property_id'] for c in json.load(open('MANIFEST.json'))['checks']))")
for id in $ids; do
  out=$(./check $id $tier 2>&1); rc=$?
  echo "$id rc=$rc $(echo "$out" | grep -c '^VIOLATION') VIOLATION lines, $(echo "$out" | grep -c '^KNOWN-FINDING') KNOWN lines | $(echo "$out" | tail -1 | cut -c1-160)"
done
