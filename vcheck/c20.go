package main

// C20 — the variable store is a map with read-only specials.
//
// Explicit-state BFS over the reachable states of a real ExecEnv.  A state is
// the canonical content of the store (sorted Walk + Args + Opts); a transition
// calls one real API function.  Real objects cannot be cloned, so a successor
// is built by replaying the shortest known history on a fresh instance plus
// one operation.  Oracle: a plain Go map updated by each operation's
// documented effect, compared after every transition.

import (
	"encoding/json"
	"fmt"
	"os"
	"sort"
	"strconv"
	"strings"

	"github.com/hattya/go.sh/ast"
	"github.com/hattya/go.sh/interp"
	"github.com/hattya/go.sh/parser"
)

type c20Op struct {
	Kind string `json:"kind"` // set unset get walk expand eval
	Name string `json:"name,omitempty"`
	Val  string `json:"val,omitempty"`  // Set value
	Text string `json:"text,omitempty"` // word / expression source
	// Inner: for Kind "expand" with a composite word: the expansion that forms the word of ${Name Val Inner}
	Inner string `json:"inner,omitempty"`
}

func (o c20Op) String() string {
	switch o.Kind {
	case "set":
		return fmt.Sprintf("Set(%q,%q)", o.Name, o.Val)
	case "unset":
		return fmt.Sprintf("Unset(%q)", o.Name)
	case "expand":
		return fmt.Sprintf("Expand(%s)", o.Text)
	case "eval":
		return fmt.Sprintf("Eval(%q)", o.Text)
	}
	return o.Kind
}

type c20Init struct {
	Args []string `json:"args"`
	Opts uint     `json:"opts"`
}

type c20Case struct {
	Init c20Init `json:"init"`
	Hist []c20Op `json:"history"`
}

// ---- model

type c20Model struct {
	vars map[string]string
	args []string
	opts interp.Option
}

func c20Special(n string) bool {
	switch n {
	case "@", "*", "#", "?", "-", "$", "!", "0":
		return true
	}
	return false
}

func c20Positional(n string) bool {
	if n == "" || n == "0" {
		return false
	}
	for _, r := range n {
		if r < '0' || r > '9' {
			return false
		}
	}
	return true
}

func (m *c20Model) get(n string) (string, bool) {
	switch n {
	case "#":
		return strconv.Itoa(len(m.args) - 1), true
	case "?":
		return "0", true
	case "-":
		s := m.opts.String()
		return s, s != ""
	case "$":
		return strconv.Itoa(os.Getpid()), true
	case "!":
		return "", false
	case "0":
		return m.args[0], true
	case "@", "*":
		return "", false // only meaningful through Expand
	}
	if c20Positional(n) {
		i, _ := strconv.Atoi(n)
		if i < len(m.args) {
			return m.args[i], true
		}
		return "", false
	}
	v, ok := m.vars[n]
	return v, ok
}

func (m *c20Model) set(n, v string) {
	if c20Special(n) || c20Positional(n) {
		return
	}
	m.vars[n] = v
}

func c20Num(s string) (int64, bool) {
	if s == "" {
		return 0, true
	}
	return axParseConst(s)
}

// apply performs the documented store effect of op on the model and reports
// whether the operation must fail (1), must succeed (0) or is left open (-1).
func (m *c20Model) apply(o c20Op) int {
	switch o.Kind {
	case "set":
		m.set(o.Name, o.Val)
	case "unset":
		delete(m.vars, o.Name)
	case "expand":
		// o.Name = parameter, o.Val = operator, o.Text = source, word = fixed "w"
		v, set := m.get(o.Name)
		if o.Name == "@" || o.Name == "*" {
			set = true
			v = strings.Join(m.args[1:], " ")
		}
		null := v == ""
		if o.Val == "arith" {
			// $((a=$P+1)): the parameter's VALUE is what the expression sees (a number, or the name of a variable)
			pv, pset := m.get(o.Inner)
			if !pset && m.opts&interp.NoUnset != 0 {
				return -2 // an error is expected (C13's subject); the store must stay as it is
			}
			n, ok := c20Num(pv)
			if !ok {
				vv := m.vars[pv] // the value names a variable
				if n, ok = c20Num(vv); !ok {
					return 1
				}
			}
			m.vars["a"] = strconv.FormatInt(n+1, 10)
			return 0
		}
		if o.Inner != "" {
			// ${n op INNER}: the word is expanded only when it is used; its own store effect and failure come first
			used := !set || null && strings.HasPrefix(o.Val, ":")
			if o.Val == ":+" {
				used = set && !null
			}
			if o.Val == "%" || o.Val == "#" {
				// the pattern is expanded only when there is something to remove from
				used = set && !null
				if !set && m.opts&interp.NoUnset != 0 {
					return -2 // an error is expected (C13's subject); the store must stay as it is
				}
			}
			if !used {
				return 0
			}
			bv, bset := m.vars["b"]
			val, innerFail := "", false
			switch o.Inner {
			case "${b:=w}":
				if !bset || bv == "" {
					m.vars["b"] = "w"
				}
				val = m.vars["b"]
			case "${b?m}":
				innerFail = !bset
				val = bv
			case "$((1/0))":
				innerFail = true
			case "$((b=3))":
				m.vars["b"] = "3"
				val = "3"
			case "${b:-w}":
				val = bv
				if !bset || bv == "" {
					val = "w"
				}
			}
			switch {
			case innerFail:
				return 1
			case o.Val == ":=" || o.Val == "=":
				m.vars[o.Name] = val
				return 0
			case o.Val == ":?" || o.Val == "?":
				return 1
			case o.Val == "%" || o.Val == "#":
				return 0
			}
			return 0
		}
		if strings.Contains(o.Text, "${A:=w}") {
			if av, aset := m.vars["A"]; !aset || av == "" {
				m.vars["A"] = "w"
			}
		}
		switch o.Val {
		case ":=", "=":
			if !set || null && o.Val == ":=" {
				if c20Special(o.Name) || c20Positional(o.Name) {
					return 1
				}
				m.vars[o.Name] = "w"
			}
			return 0
		case ":?", "?":
			if !set || null && o.Val == ":?" {
				return 1
			}
			return 0
		case "":
			if !set && m.opts&interp.NoUnset != 0 {
				return -1 // POSIX requires an error; go.sh's behaviour here is C13's subject
			}
			return 0
		}
		if !set && m.opts&interp.NoUnset != 0 {
			return -1
		}
		return 0
	case "eval":
		// o.Name = variable, o.Val = form
		cur, _ := m.vars[o.Name]
		n, ok := c20Num(cur)
		switch o.Val {
		case "n=1":
			m.vars[o.Name] = "1"
		case "n+=1", "n++", "++n":
			if !ok {
				return 1
			}
			m.vars[o.Name] = strconv.FormatInt(n+1, 10)
		case "--n":
			if !ok {
				return 1
			}
			m.vars[o.Name] = strconv.FormatInt(n-1, 10)
		case "m=++n", "m=--n", "m=n++":
			// the value of a prefix operator is the new value, of a postfix operator the old one
			if !ok {
				return 1
			}
			d := int64(1)
			if o.Val == "m=--n" {
				d = -1
			}
			m.vars[o.Name] = strconv.FormatInt(n+d, 10)
			if o.Val == "m=n++" {
				m.vars["b"] = strconv.FormatInt(n, 10)
			} else {
				m.vars["b"] = strconv.FormatInt(n+d, 10)
			}
		case "n":
			if !ok {
				return 1
			}
		case "m=n=2":
			m.vars[o.Name] = "2"
			m.vars["b"] = "2"
		case "1/0", "n=1/0", "n=08":
			return 1
		case "0&&(n=7)", "0&&1/0", "1||(n=08)", "-1||(n=7)":
			// operands C skips: no store, no fault (any non-zero left operand of || is true)
		case "-1&&(n=7)":
			m.vars[o.Name] = "7"
		case "n=0?08:5":
			m.vars[o.Name] = "5"
		case "(1||09)+(n=7)":
			m.vars[o.Name] = "7"
		}
		return 0
	}
	return 0
}

func (m *c20Model) canon() string {
	var ks []string
	for k := range m.vars {
		ks = append(ks, k)
	}
	sort.Strings(ks)
	var b strings.Builder
	for _, k := range ks {
		fmt.Fprintf(&b, "%s=%q;", k, m.vars[k])
	}
	fmt.Fprintf(&b, "|%q|%d", m.args, m.opts)
	return b.String()
}

// ---- real object

func c20Canon(env *interp.ExecEnv) string {
	type kv struct{ k, v string }
	var all []kv
	dup := false
	seen := map[string]bool{}
	env.Walk(func(v interp.Var) {
		if seen[v.Name] {
			dup = true
		}
		seen[v.Name] = true
		all = append(all, kv{v.Name, v.Value})
	})
	sort.Slice(all, func(i, j int) bool { return all[i].k < all[j].k })
	var b strings.Builder
	for _, e := range all {
		fmt.Fprintf(&b, "%s=%q;", e.k, e.v)
	}
	if dup {
		b.WriteString("DUPLICATE-NAMES;")
	}
	fmt.Fprintf(&b, "|%q|%d", env.Args, env.Opts)
	return b.String()
}

var c20Words = map[string]ast.Word{}

func c20Word(src string) ast.Word {
	if w, ok := c20Words[src]; ok {
		return w
	}
	cmd, _, err := parser.ParseCommand("c20", "echo "+src)
	if err != nil {
		panic(fmt.Sprintf("c20: cannot parse %q: %v", src, err))
	}
	w := cmd.(*ast.Cmd).Expr.(*ast.SimpleCmd).Args[1]
	c20Words[src] = w
	return w
}

// doOp applies op to the real env; returns whether it failed and a note about
// argument mutation.
func c20Do(env *interp.ExecEnv, o c20Op) (failed bool, note string) {
	switch o.Kind {
	case "set":
		env.Set(o.Name, o.Val)
	case "unset":
		env.Unset(o.Name)
	case "expand":
		w := c20Word(o.Text)
		before := dumpAST(w, true)
		_, err := env.Expand(w, 0)
		if after := dumpAST(w, true); after != before {
			note = fmt.Sprintf("Expand modified the AST it was given: %s -> %s", before, after)
		}
		failed = err != nil
	case "eval":
		_, err := env.Eval(o.Text)
		failed = err != nil
	}
	return
}

var c20Names = []string{"a", "A", "b", "HOME", "IFS", "@", "*", "#", "?", "-", "$", "!", "0", "1", "2", "10", "11", "12"}

func c20Ops() []c20Op {
	var ops []c20Op
	for _, n := range c20Names {
		if n == "IFS" {
			continue
		}
		for _, v := range []string{"", "1", "x"} {
			ops = append(ops, c20Op{Kind: "set", Name: n, Val: v})
		}
		ops = append(ops, c20Op{Kind: "unset", Name: n})
	}
	for _, n := range []string{"a", "A", "1", "10", "12", "#", "@", "*", "!", "0"} {
		for _, op := range []string{":=", "=", ":-", ":?", "?", ":+", "", "%", "#"} {
			var text string
			switch op {
			case "":
				text = "${" + n + "}"
			case ":?", "?":
				text = "${" + n + op + "}"
			default:
				text = "${" + n + op + "w}"
			}
			ops = append(ops, c20Op{Kind: "expand", Name: n, Val: op, Text: text})
		}
	}
	// composite words: the word of the operator is itself an expansion that assigns, fails or does neither
	for _, op := range []string{":-", "-", ":=", ":?", "?", ":+"} {
		for _, inner := range []string{"${b:=w}", "${b?m}", "$((1/0))", "$((b=3))", "${b:-w}"} {
			ops = append(ops, c20Op{Kind: "expand", Name: "a", Val: op, Inner: inner, Text: "${a" + op + inner + "}"})
		}
	}
	// pattern removal whose pattern is itself an assigning expansion
	for _, op := range []string{"%", "#"} {
		for _, inner := range []string{"${b:=w}", "$((b=3))"} {
			ops = append(ops, c20Op{Kind: "expand", Name: "a", Val: op, Inner: inner, Text: "${a" + op + inner + "}"})
			ops = append(ops, c20Op{Kind: "expand", Name: "b", Val: op, Inner: inner, Text: "${b" + op + inner + "}"})
		}
	}
	// tilde expansion reads HOME and must not write it
	for _, t := range []string{"~", "~/a", "a:~", "${HOME=w}"} {
		o := c20Op{Kind: "expand", Name: "HOME", Val: "", Text: t}
		if strings.HasPrefix(t, "${") {
			o.Val = "="
		}
		ops = append(ops, o)
	}
	ops = append(ops, c20Op{Kind: "set", Name: "HOME", Val: "/h"}, c20Op{Kind: "unset", Name: "HOME"})
	// an assigning expansion that is not the whole word: text, another expansion or quotes around it
	for _, t := range []string{"pre-${a:=w}", "$0${a:=w}", "\"dir/${a:=w}\"", "$@${a:=w}", "${a:=w}post", "pre-${a:=w}-${A:=w}"} {
		ops = append(ops, c20Op{Kind: "expand", Name: "a", Val: ":=", Text: t})
	}
	// pattern removal applied to the positional parameters (must not write through to Args)
	for _, t := range [][2]string{{"${@%q}", "@"}, {"${@#p}", "@"}, {"${@%%?}", "@"}, {"${*#p}", "*"}, {"${1%p}", "1"}, {"\"${@%q}\"", "@"}} {
		ops = append(ops, c20Op{Kind: "expand", Name: t[1], Val: "%", Text: t[0]})
	}
	// positional and special parameters inside an arithmetic expansion: their values, not their names or indices
	for _, pn := range []string{"1", "2", "10", "#"} {
		ref := "$" + pn
		if len(pn) > 1 {
			ref = "${" + pn + "}"
		}
		ops = append(ops, c20Op{Kind: "expand", Name: "a", Val: "arith", Inner: pn, Text: "$((a=" + ref + "+1))"})
	}
	for _, n := range []string{"a", "A"} {
		for _, f := range []string{"n=1", "n+=1", "n++", "++n", "--n", "n", "m=n=2", "1/0", "n=1/0", "n=08", "0&&(n=7)", "0&&1/0", "1||(n=08)", "n=0?08:5", "(1||09)+(n=7)", "-1||(n=7)", "-1&&(n=7)", "m=++n", "m=--n", "m=n++"} {
			if n == "A" && (strings.HasPrefix(f, "-1") || strings.HasPrefix(f, "m=++") || strings.HasPrefix(f, "m=--") || f == "m=n++") {
				continue // (the forms added in rounds 10 and 11: one variable is enough)
			}
			text := strings.ReplaceAll(f, "n", n)
			text = strings.ReplaceAll(text, "m=", "b=")
			ops = append(ops, c20Op{Kind: "eval", Name: n, Val: f, Text: text})
		}
	}
	return ops
}

func c20NewEnv(in c20Init) (*interp.ExecEnv, *c20Model) {
	env := interp.NewExecEnv(in.Args[0], in.Args[1:]...)
	env.Opts = interp.Option(in.Opts)
	env.Aliases["al"] = "ias"
	m := &c20Model{vars: map[string]string{"IFS": " \t\n"}, args: append([]string{}, in.Args...), opts: interp.Option(in.Opts)}
	return env, m
}

// c20Replay runs a history on a fresh env and model, checking after every
// step; it returns the first disagreement.
func c20Replay(c c20Case, checkAll bool) (env *interp.ExecEnv, m *c20Model, bad string) {
	env, m = c20NewEnv(c.Init)
	for i, o := range c.Hist {
		last := i == len(c.Hist)-1
		pre := m.canon()
		must := m.apply(o)
		var failed bool
		var note string
		var pan interface{}
		func() {
			defer func() { pan = recover() }()
			failed, note = c20Do(env, o)
		}()
		if !(last || checkAll || o.Kind == "observe") {
			if must == -1 && pan == nil {
				m.vars = map[string]string{}
				env.Walk(func(v interp.Var) { m.vars[v.Name] = v.Value })
			}
			continue
		}
		switch {
		case pan != nil:
			return env, m, fmt.Sprintf("step %d %v panicked: %v", i, o, pan)
		case note != "":
			return env, m, fmt.Sprintf("step %d %v: %s", i, o, note)
		case must == -2:
			// status not compared
		case must == 1 && !failed:
			return env, m, fmt.Sprintf("step %d %v must fail but returned no error (store before: %s)", i, o, pre)
		case must == 0 && failed:
			return env, m, fmt.Sprintf("step %d %v failed but the model expects success (store before: %s)", i, o, pre)
		}
		if must == -1 {
			// effect left open: resynchronise the model's variables with the real store
			m.vars = map[string]string{}
			env.Walk(func(v interp.Var) { m.vars[v.Name] = v.Value })
		}
		if got, want := c20Canon(env), m.canon(); got != want {
			return env, m, fmt.Sprintf("after step %d %v the store is {%s}, the map model has {%s} (before: %s)", i, o, got, want, pre)
		}
		if env.Aliases["al"] != "ias" || len(env.Aliases) != 1 {
			return env, m, fmt.Sprintf("step %d %v changed Aliases: %v", i, o, env.Aliases)
		}
		for _, n := range c20Names {
			gv, gs := env.Get(n)
			wv, ws := m.get(n)
			if gs != ws || gs && gv.Value != wv {
				return env, m, fmt.Sprintf("after step %d %v: Get(%q) = (%q,%v), model (%q,%v)", i, o, n, gv.Value, gs, wv, ws)
			}
		}
	}
	return env, m, ""
}

func c20Run(w *W) {
	os.Clearenv()
	depth := 4
	if w.thorough() {
		depth = 6
	}
	eleven := []string{"sh", "p1", "640", "p3", "p4", "p5", "p6", "p7", "p8", "p9", "480", "p11"}
	inits := []c20Init{}
	for _, a := range [][]string{{"sh"}, {"sh", "p", "q"}, eleven, {"sh", ""}} {
		for _, o := range []uint{0, uint(interp.NoUnset)} {
			inits = append(inits, c20Init{a, o})
		}
	}
	ops := c20Ops()
	for _, in := range inits {
		if !w.Mine() {
			continue
		}
		seen := map[string]bool{}
		_, m0 := c20NewEnv(in)
		seen[m0.canon()] = true
		frontier := [][]c20Op{nil}
		w.Count("states", 1)
		for d := 0; d < depth && len(frontier) > 0; d++ {
			var next [][]c20Op
			for _, hist := range frontier {
				if w.TimeUp() {
					return
				}
				for _, o := range ops {
					h := append(append([]c20Op{}, hist...), o)
					c := c20Case{in, h}
					w.Announce(fmt.Sprint(h))
					w.Count("transitions", 1)
					w.Count("evaluations", 1)
					w.Count("traces_validated_against_impl", 1)
					env, _, bad := c20Replay(c, false)
					if bad != "" {
						w.Violation("", c, bad)
						continue
					}
					k := c20Canon(env)
					if !seen[k] {
						seen[k] = true
						w.Count("states", 1)
						w.Count("distinct_nontrivial", 1)
						w.Sample(map[string]interface{}{"init": in, "history": fmt.Sprint(h), "state": k})
						next = append(next, h)
					}
				}
			}
			frontier = next
		}
		w.Count("bfs_roots", 1)
	}
	// Second phase — no state merging: the BFS above identifies states by their observable store, which is only
	// sound if the environment has no hidden state (a cache behind Walk or Get would give two "equal" states
	// different futures).  Here EVERY history of ≤ 4 (thorough 5) operations over a reduced alphabet is run, with
	// the observation itself (Walk, Get of every name, Args, Opts) as an operation that can stand anywhere.
	var red []c20Op
	red = append(red, c20Op{Kind: "observe"})
	for _, n := range []string{"a", "b", "A"} {
		red = append(red, c20Op{Kind: "set", Name: n, Val: "1"}, c20Op{Kind: "unset", Name: n})
	}
	red = append(red, c20Op{Kind: "set", Name: "a", Val: "x"}, c20Op{Kind: "set", Name: "IFS", Val: ":"}, c20Op{Kind: "unset", Name: "IFS"})
	for _, o := range ops {
		switch {
		case o.Kind == "expand" && (o.Text == "${a?${b?m}}" || o.Text == "${a:?${b:=w}}" || o.Text == "${a:=${b?m}}" || o.Text == "${a:=w}" || o.Text == "${a}" || o.Text == "${b=w}" || o.Text == "${@%q}" || o.Text == "${1:-w}"):
			red = append(red, o)
		case o.Kind == "eval" && o.Name == "a" && (o.Val == "n=1" || o.Val == "n++" || o.Val == "m=n=2" || o.Val == "n=08" || o.Val == "n=0?08:5"):
			red = append(red, o)
		}
	}
	hdepth := 4
	if w.thorough() {
		hdepth = 5
	}
	in := c20Init{[]string{"sh", "p", "q"}, 0}
	cur := make([]c20Op, 0, hdepth+1)
	var rec func()
	rec = func() {
		if len(cur) > 0 && cur[len(cur)-1].Kind != "observe" {
			h := append(append([]c20Op{}, cur...), c20Op{Kind: "observe"})
			c := c20Case{in, h}
			w.Count("transitions", int64(len(h)))
			w.Count("evaluations", 1)
			w.Count("unmerged_histories", 1)
			w.Count("traces_validated_against_impl", 1)
			if _, _, bad := c20Replay(c, false); bad != "" {
				w.Violation("", c, bad)
			}
		}
		if len(cur) == hdepth {
			return
		}
		for _, o := range red {
			if o.Kind == "observe" && (len(cur) == 0 || cur[len(cur)-1].Kind == "observe") {
				continue
			}
			cur = append(cur, o)
			if len(cur) == 1 && !w.Mine() {
				cur = cur[:0]
				continue
			}
			rec()
			cur = cur[:len(cur)-1]
		}
	}
	rec()
	w.Count("unmerged_alphabet", int64(len(red)))
	// many variables: n = 1 … 24 distinct names set, observed, every other one unset, observed, one assigned by an
	// expansion, one by Eval, observed (map growth, enumeration of more than a handful of entries)
	for n := 1; n <= 24; n++ {
		if !w.Mine() {
			continue
		}
		var h []c20Op
		for i := 0; i < n; i++ {
			h = append(h, c20Op{Kind: "set", Name: fmt.Sprintf("v%d", i), Val: fmt.Sprint(i)})
		}
		h = append(h, c20Op{Kind: "observe"})
		for i := 0; i < n; i += 2 {
			h = append(h, c20Op{Kind: "unset", Name: fmt.Sprintf("v%d", i)})
		}
		h = append(h, c20Op{Kind: "observe"})
		for i := n - 1; i >= 0; i -= 3 {
			h = append(h, c20Op{Kind: "set", Name: fmt.Sprintf("v%d", i), Val: "x"})
		}
		h = append(h, c20Op{Kind: "expand", Name: "a", Val: ":=", Text: "${a:=w}"}, c20Op{Kind: "eval", Name: "A", Val: "n=1", Text: "A=1"}, c20Op{Kind: "observe"})
		c := c20Case{in, h}
		w.Count("transitions", int64(len(h)))
		w.Count("evaluations", 1)
		w.Count("many_variable_histories", 1)
		w.Count("traces_validated_against_impl", 1)
		if _, _, bad := c20Replay(c, false); bad != "" {
			w.Violation("", c, bad)
		}
	}
}

func init() {
	register(&check{
		id:    "C20",
		level: "model_checking",
		rule: "explicit-state BFS to depth 4 (quick) / 6 (thorough) from 8 initial environments (Args ∈ {sh; sh p q; 11 positionals; one empty positional} × Opts ∈ {0, nounset}); " +
			"alphabet ≈ 250 operations: Set/Unset on ordinary, special and positional names, Expand of ${n op w} for 9 operator forms and 10 parameter kinds, pattern removal on $@/$*/$1, 30 composite forms ${a op INNER} whose word assigns, fails or does neither, 6 words in which the assigning expansion is surrounded by other text, Eval of 15 assigning/faulting/short-circuit forms; " +
			"every transition is taken from every distinct reachable state; second phase without state merging: every history of ≤ 4 (thorough 5) operations over a reduced alphabet of ≈ 20 operations in which the observation (Walk, Get, Args) is itself an operation; distinct_nontrivial = distinct reachable store states other than the initial one",
		assume: []string{"map model in c20.go; process environment cleared so that NewExecEnv starts from {IFS}",
			"canonical state = sorted (name,value) of Walk + Args + Opts: Export/ReadOnly flags are not observed by any operation of the alphabet, so merged states have equal futures",
			"where POSIX and go.sh differ on nounset for plain $n (C13) and for the eager && (C11 known finding) the store effect is resynchronised instead of judged"},
		run: c20Run,
		replay: func(raw json.RawMessage) error {
			os.Clearenv()
			var c c20Case
			if err := json.Unmarshal(raw, &c); err != nil {
				return err
			}
			if _, _, bad := c20Replay(c, true); bad != "" {
				return fmt.Errorf("%s", bad)
			}
			return nil
		},
	})
}
