package main

// C02 — every grammatical program is accepted and its AST mirrors its derivation.
// C03 — ill-formed programs are rejected with a located syntax error.
//
// Both enumerate all symbol strings of the tier's alphabets/bounds, run the
// grammar model (gram.go) and the real parser on each, and judge the strings
// the model accepts (C02) or rejects (C03).

import (
	"encoding/json"
	"fmt"
	"reflect"
	"strings"

	"github.com/hattya/go.sh/ast"
	"github.com/hattya/go.sh/parser"
)

type symCase struct {
	Syms []string `json:"symbols"`
	Src  string   `json:"source"`
}

func mkSymCase(ss []sym) symCase { return symCase{symTexts(ss), render(ss).src} }

// c02Judge: the model accepts ss; returns a diagnosis class and detail, "" if fine.
func c02Judge(ss []sym, m gramResult, r rendered, o parseObs) (class, detail string) {
	if o.pan != nil {
		return "panic", fmt.Sprintf("ParseCommands(%q) panicked: %v", r.src, o.pan)
	}
	if o.err != nil {
		return "rejected", fmt.Sprintf("ParseCommands(%q) fails with %v; the grammar derives it: %s", r.src, o.err, dumpAST(m.cmd, false))
	}
	var got ast.Command
	switch len(o.cmds) {
	case 0:
	case 1:
		got = o.cmds[0]
	default:
		return "ast", fmt.Sprintf("ParseCommands(%q) returns %d commands for one command line", r.src, len(o.cmds))
	}
	gs, ms := "nil", "nil"
	if got != nil {
		gs = dumpAST(got, false)
	}
	if m.cmd != nil {
		ms = dumpAST(m.cmd, false)
	}
	if gs != ms {
		return "ast", fmt.Sprintf("ParseCommands(%q): AST differs from the derivation\n got  %s\n want %s", r.src, gs, ms)
	}
	if gc := commentTexts(o.comments); !reflect.DeepEqual(gc, m.comments) && !(len(gc) == 0 && len(m.comments) == 0) {
		return "comments", fmt.Sprintf("ParseCommands(%q): comments %q, the source has %q", r.src, gc, m.comments)
	}
	if d := shapeInvariants(got); d != "" {
		return "shape", fmt.Sprintf("ParseCommands(%q): %s", r.src, d)
	}
	return "", ""
}

// shapeInvariants: documented shapes of the collapsed nodes.
func shapeInvariants(c ast.Command) string {
	switch c := c.(type) {
	case nil:
		return ""
	case ast.List:
		if len(c) < 2 {
			return fmt.Sprintf("a List with %d element(s)", len(c))
		}
	case *ast.AndOrList:
		if len(c.List) == 0 && c.SepPos.IsZero() {
			return "an AndOrList with neither && / || nor a separator"
		}
	case *ast.Pipeline:
		if c.Bang.IsZero() && len(c.List) == 0 {
			return "a Pipeline with neither ! nor |"
		}
	}
	return ""
}

// c03Judge: the model rejects ss.
func c03Judge(ss []sym, m gramResult, r rendered, o parseObs) (class, detail string) {
	if o.pan != nil {
		return "panic", fmt.Sprintf("ParseCommands(%q) panicked: %v", r.src, o.pan)
	}
	if o.err == nil {
		return "accepted", fmt.Sprintf("ParseCommands(%q) returns no error (%s); the grammar rejects it at symbol %d %q: %s", r.src, dumpAST(o.cmds, false), m.errAt, symAt(ss, m.errAt), m.errMsg)
	}
	pe, ok := o.err.(parser.Error)
	if !ok {
		return "error-type", fmt.Sprintf("ParseCommands(%q): error %T %v is not a parser.Error although the failure is syntactic", r.src, o.err, o.err)
	}
	if pe.Name != "t" {
		return "error-name", fmt.Sprintf("ParseCommands(%q): error carries name %q, the caller passed \"t\"", r.src, pe.Name)
	}
	consumed := len(r.src) - o.rest
	off := posOffset(r.src, pe.Pos)
	if off < 0 || off > consumed {
		return "error-pos", fmt.Sprintf("ParseCommands(%q): error position %d:%d (%v) lies outside the %d bytes consumed", r.src, pe.Pos.Line(), pe.Pos.Col(), pe.Msg, consumed)
	}
	if !tokenStart(ss, r, off) {
		return "error-pos", fmt.Sprintf("ParseCommands(%q): error position %d:%d (offset %d, %v) is not the start of a token or construct", r.src, pe.Pos.Line(), pe.Pos.Col(), off, pe.Msg)
	}
	return "", ""
}

func symAt(ss []sym, i int) string {
	if i < len(ss) {
		return ss[i].text
	}
	return "<end of input>"
}

// tokenStart: off is the start of a symbol, of a here-document body line, of
// the second token of a glued symbol ("2>" "<<E"), of a construct opening
// inside a word symbol, or the end of the source.
func tokenStart(ss []sym, r rendered, off int) bool {
	if off == len(r.src) || r.src[off] == '\n' {
		return true // end of input, or a newline token
	}
	for i, st := range r.start {
		if off == st {
			return true
		}
		s := ss[i]
		if off > st && off < st+len(s.text) {
			rel := off - st
			switch s.kind {
			case kIONum:
				if rel == len(s.num) {
					return true
				}
			case kHere:
				if rel == len(s.num) || rel == len(s.num)+len(s.op) {
					return true
				}
			case kArith:
				if rel == 2 || rel == len(s.text)-2 {
					return true // the expression and the closing '))' are tokens of their own
				}
			case kWord, kBroken:
				// an opening character of a nested construct
				if strings.ContainsRune("'\"$`(\\", rune(s.text[rel])) {
					return true
				}
				// a token of the command inside a substitution: after a blank or an operator character, or an
				// operator or closing character itself
				if strings.ContainsAny(s.text, "`(") && s.text[rel] != ' ' && (strings.ContainsRune(" `(|;&)", rune(s.text[rel-1])) || strings.ContainsRune("|;&)", rune(s.text[rel]))) {
					return true
				}
			}
		}
	}
	// inside a here-document body or delimiter line: any line start
	if off > 0 && r.src[off-1] == '\n' {
		return true
	}
	return false
}

func exploreSymStrings(w *W, judge func(ss []sym, m gramResult, r rendered, o parseObs, accepted bool)) {
	seen := map[string]bool{}
	for _, ab := range parseBounds(w.tier) {
		genSyms(ab.sigma, ab.n, func(ss []sym) {
			if !w.Mine() {
				return
			}
			if w.TimeUp() {
				return
			}
			r := render(ss)
			// a string explored under an earlier alphabet is not explored twice
			if len(ss) <= 3 {
				if seen[r.src] {
					return
				}
				seen[r.src] = true
			}
			if lexicallyEntangled(ss) {
				w.Count("skipped_entangled_strings", 1)
				return
			}
			m := gramParse(ss)
			if m.dontcare != "" {
				w.Count("dontcare_strings", 1)
				w.Count("dontcare: "+m.dontcare, 1)
				return
			}
			w.Announce(r.src)
			o := runParse(r.src)
			w.Count("states", 1)
			w.Count("transitions", int64(len(ss)))
			judge(ss, m, r, o, m.ok)
		})
	}
}

func init() {
	register(&check{
		id:    "C02",
		level: "model_checking",
		rule: "every symbol string ≤ 3 over Σfull(59), ≤ 4 over Σcore(38), ≤ 5 over Σmin(20), ≤ 6 over Σtiny(16) (thorough: one longer each) that the grammar model accepts, plus the derivation sets of c02gen.go; " +
			"non-trivial = accepted and containing a compound command, a pipeline/list operator, a redirection or a multi-part word",
		assume: []string{"grammar model gram.go (XCU 2.10 + (( )) command) is trusted; cross-validated at design time against dash -n / bash --posix -n",
			"strings whose verdict POSIX leaves open are skipped (here-document operator at end of input without newline, non-compound function body, special built-in as function name, non-ASCII names, reserved word after a compound command's redirection)"},
		run: func(w *W) {
			exploreSymStrings(w, func(ss []sym, m gramResult, r rendered, o parseObs, accepted bool) {
				if !accepted {
					return
				}
				w.Count("evaluations", 1)
				w.Count("traces_validated_against_impl", 1)
				if m.cmd != nil {
					if _, simple := m.cmd.(*ast.Cmd); !simple || len(ss) > 2 {
						w.Count("distinct_nontrivial", 1)
						w.Sample(mkSymCase(ss))
					}
				}
				if cl, d := c02Judge(ss, m, r, o); d != "" {
					w.Violation(c02Class(cl, ss, r, m, o), mkSymCase(ss), d)
				}
			})
			c02Derivations(w)
			c02Mutations(w)
		},
		replay: func(raw json.RawMessage) error {
			var c symCase
			if err := json.Unmarshal(raw, &c); err != nil {
				return err
			}
			registerDynamicSymbols()
			if len(c.Syms) == 0 && c.Src != "" {
				if d := arithBalancedJudge(c.Src, runParse(c.Src)); d != "" {
					return fmt.Errorf("%s", d)
				}
				return nil
			}
			ss := syms(c.Syms...)
			m := gramParse(ss)
			r := render(ss)
			o := runParse(r.src)
			fmt.Printf("source %q\nmodel: ok=%v dontcare=%q %s\nimpl: %s\n", r.src, m.ok, m.dontcare, dumpAST(m.cmd, false), describeObs(o))
			if m.dontcare != "" {
				return nil
			}
			if m.ok {
				if _, d := c02Judge(ss, m, r, o); d != "" {
					return fmt.Errorf("%s", d)
				}
			}
			return nil
		},
	})
	register(&check{
		id:    "C03",
		level: "model_checking",
		rule: "every symbol string of the same alphabets and bounds as C02 that the grammar model rejects, plus every single-symbol deletion, insertion, duplication and adjacent swap of the generated well-formed programs; " +
			"non-trivial = rejected for a reason other than an unterminated quote/expansion at the first symbol",
		assume: []string{"grammar model gram.go classifies valid/invalid", "the error position must be the start of a symbol (or of a nested construct / here-document line) within the text consumed; which of several possible errors is reported is not compared"},
		run: func(w *W) {
			exploreSymStrings(w, func(ss []sym, m gramResult, r rendered, o parseObs, accepted bool) {
				if accepted {
					return
				}
				w.Count("evaluations", 1)
				w.Count("traces_validated_against_impl", 1)
				if m.errAt > 0 {
					w.Count("distinct_nontrivial", 1)
					w.Sample(mkSymCase(ss))
				}
				if cl, d := c03Judge(ss, m, r, o); d != "" {
					w.Violation(c03Class(cl, ss, r, m, o), mkSymCase(ss), d)
				}
			})
			c03Mutations(w)
		},
		replay: func(raw json.RawMessage) error {
			var c symCase
			if err := json.Unmarshal(raw, &c); err != nil {
				return err
			}
			registerDynamicSymbols()
			ss := syms(c.Syms...)
			m := gramParse(ss)
			r := render(ss)
			o := runParse(r.src)
			fmt.Printf("source %q\nmodel: ok=%v dontcare=%q errAt=%d %s\nimpl: %s\n", r.src, m.ok, m.dontcare, m.errAt, m.errMsg, describeObs(o))
			if m.dontcare == "" && !m.ok {
				if _, d := c03Judge(ss, m, r, o); d != "" {
					return fmt.Errorf("%s", d)
				}
			}
			return nil
		},
	})
}

// attribution of disagreements to diagnosis classes (candidate known findings); filled in during triage
func c02Class(cl string, ss []sym, r rendered, m gramResult, o parseObs) string {
	if cl == "ast" || cl == "rejected" {
		// defect model: inside an open '(' the lexer does not recognise '((' and '))'
		if t, changed := arithAsParens(ss); changed {
			m2 := gramParse(t)
			switch {
			case m2.ok && o.err == nil && len(o.cmds) == 1 && dumpAST(o.cmds[0], false) == dumpAST(m2.cmd, false):
				return "arith-cmd-inside-parens"
			case !m2.ok && o.err != nil:
				return "arith-cmd-inside-parens"
			}
		}
		// defect model: a '#' inside a word is taken for the beginning of a comment (pinned by the repository's own
		// test "go version# comment").  Attributed only if the parser gives for this source exactly what it gives for
		// the source with a blank in front of that '#', where POSIX, too, begins a comment.
		if alt, ok := hashAsComment(ss, r); ok {
			o2 := runParse(alt)
			stripPos := func(e error) string {
				if e == nil {
					return ""
				}
				t := e.Error()
				if k := strings.Index(t, ": "); k >= 0 {
					t = t[k+2:]
				}
				return t
			}
			if o.pan == nil && o2.pan == nil && stripPos(o.err) == stripPos(o2.err) && dumpAST(o.cmds, false) == dumpAST(o2.cmds, false) && reflect.DeepEqual(commentTexts(o.comments), commentTexts(o2.comments)) {
				return "hash-inside-word-starts-comment"
			}
		}
	}
	return cl
}

// hashAsComment returns the source with a blank inserted in front of the first '#' that stands inside a
// word (not its first character, outside quotes and expansions) of each line.
func hashAsComment(ss []sym, r rendered) (string, bool) {
	var cut []int
	inComment := false
	for i, s := range ss {
		switch s.kind {
		case kNL:
			inComment = false
		case kComment:
			inComment = true
		case kWord:
			if inComment {
				continue
			}
			if k := topLevelHash(s.text); k > 0 {
				cut = append(cut, r.start[i]+k)
				inComment = true
			}
		}
	}
	if len(cut) == 0 {
		return "", false
	}
	var b strings.Builder
	prev := 0
	for _, c := range cut {
		b.WriteString(r.src[prev:c])
		b.WriteByte(' ')
		prev = c
	}
	b.WriteString(r.src[prev:])
	return b.String(), true
}

// topLevelHash: index of the first '#' of the word text that is outside quotes, backslash escapes and
// expansions and is not the word's first character; -1 if none.
func topLevelHash(t string) int {
	depth := 0 // inside ${ } $( ) ` `
	var closers []byte
	for i := 0; i < len(t); i++ {
		c := t[i]
		if len(closers) > 0 {
			top := closers[len(closers)-1]
			switch {
			case c == '\\' && top != '\'':
				i++
			case c == top:
				closers = closers[:len(closers)-1]
			case top == '\'':
			case c == '$' && i+1 < len(t) && t[i+1] == '{':
				closers = append(closers, '}')
				i++
			case c == '$' && i+1 < len(t) && t[i+1] == '(':
				closers = append(closers, ')')
				i++
			case c == '(' && top == ')':
				closers = append(closers, ')')
			case c == '"' && top != '"':
				closers = append(closers, '"')
			case c == '\'' && top != '"':
				closers = append(closers, '\'')
			}
			continue
		}
		_ = depth
		switch c {
		case '\\':
			i++
		case '\'', '"', '`':
			closers = append(closers, c)
		case '$':
			if i+1 < len(t) {
				switch t[i+1] {
				case '{':
					closers = append(closers, '}')
					i++
				case '(':
					closers = append(closers, ')')
					i++
				case '#', '$', '@', '*', '?', '-', '!':
					i++ // special parameter
				}
			}
		case '#':
			if i > 0 {
				return i
			}
		}
	}
	return -1
}

// arithAsParens rewrites every (( )) command that stands inside an unclosed
// '(' into the single parentheses go.sh's lexer sees there.
func arithAsParens(ss []sym) ([]sym, bool) {
	var out []sym
	depth := 0
	changed := false
	for _, s := range ss {
		switch {
		case s.kind == kOp && s.op == "(":
			depth++
		case s.kind == kOp && s.op == ")":
			if depth > 0 {
				depth--
			}
		case s.kind == kArith && depth > 0:
			out = append(out, syms("(", "(", "1", ")", ")")...)
			changed = true
			continue
		}
		out = append(out, s)
	}
	return out, changed
}
func c03Class(cl string, ss []sym, r rendered, m gramResult, o parseObs) string { return cl }

// c02Derivations: the derivation sets, each sentence in two layouts.
func c02Derivations(w *W) {
	seen := map[string]bool{}
	derivations(w.thorough(), func(name string, texts []string) {
		if !w.Mine() || w.TimeUp() {
			return
		}
		key := strings.Join(texts, "\x00")
		if seen[key] {
			return
		}
		seen[key] = true
		texts = append(append([]string{}, texts...), "\n") // a complete command line
		ss := syms(texts...)
		m := gramParse(ss)
		if !m.ok && name == "WN" {
			return // name positions: the sentences the model rejects are C03's
		}
		if !m.ok {
			w.Violation("generator", mkSymCase(ss), fmt.Sprintf("self-consistency: the grammar model rejects the generated sentence %q at symbol %d: %s", render(ss).src, m.errAt, m.errMsg))
			return
		}
		lays := [][]sym{ss}
		if ml := multiLine(ss, m); len(ml) > 0 {
			lays = append(lays, ml)
		}
		if semiNewlineFamily(name, w.thorough()) {
			if sn := semiNewline(ss, m); sn != nil {
				lays = append(lays, sn)
			}
		}
		for li, lay := range lays {
			m := m
			if li > 0 {
				m = gramParse(lay)
				if !m.ok {
					w.Violation("generator", mkSymCase(lay), fmt.Sprintf("self-consistency: the grammar model rejects the multi-line layout %q at symbol %d: %s", render(lay).src, m.errAt, m.errMsg))
					continue
				}
			}
			if m.dontcare != "" {
				w.Count("dontcare_strings", 1)
				continue
			}
			for _, r := range []rendered{render(lay), renderTight(lay)} {
				w.Announce(r.src)
				o := runParse(r.src)
				w.Count("states", 1)
				w.Count("transitions", int64(len(lay)))
				w.Count("evaluations", 1)
				w.Count("derivation_sentences_"+name, 1)
				w.Count("traces_validated_against_impl", 1)
				w.Count("distinct_nontrivial", 1)
				w.Sample(symCase{symTexts(lay), r.src})
				if cl, d := c02Judge(lay, m, r, o); d != "" {
					w.Violation(c02Class(cl, lay, r, m, o), symCase{symTexts(lay), r.src}, d)
				}
			}
		}
	})
}

// mutants enumerates every single-symbol deletion, insertion (each Σcore
// symbol at each position), duplication and adjacent swap of the base
// sentences (quick: the default-filled templates and top-level lists;
// thorough: all of D(1,2)).
func mutants(w *W, f func(ss []sym)) {
	ins := syms(sigmaCore...)
	pair := syms("#c", "\n")
	seen := map[string]bool{}
	derivations(w.thorough(), func(name string, texts []string) {
		if name == "WN" || name == "DH" || name == "WG" {
			return
		}
		if !w.thorough() && name != "D0" && name != "W" && !(name == "D1" && len(texts) <= 12) {
			return
		}
		if w.thorough() && (name == "D2" || name == "D3" || name == "DC") {
			return
		}
		key := strings.Join(texts, "\x00")
		if seen[key] {
			return
		}
		seen[key] = true
		if !w.Mine() || w.TimeUp() {
			return
		}
		base := syms(append(append([]string{}, texts...), "\n")...)
		n := len(base)
		buf := make([]sym, 0, n+1)
		for i := 0; i < n; i++ {
			// deletion
			buf = append(append(buf[:0], base[:i]...), base[i+1:]...)
			f(buf)
			// duplication
			buf = append(append(append(buf[:0], base[:i+1]...), base[i]), base[i+1:]...)
			f(buf)
			// adjacent swap
			if i+1 < n {
				buf = append(buf[:0], base...)
				buf[i], buf[i+1] = buf[i+1], buf[i]
				f(buf)
			}
			// insertion
			for _, s := range ins {
				buf = append(append(append(buf[:0], base[:i]...), s), base[i:]...)
				f(buf)
			}
			// insertion of a trailing comment together with the newline that ends it (the newline may be
			// insignificant, a separator, or make the sentence ill-formed; the model decides)
			buf = append(append(append(buf[:0], base[:i]...), pair...), base[i:]...)
			f(buf)
		}
	})
}

// herePairs: pairs of here-documents (quoted/unquoted delimiter, well-formed/ill-formed body) in each arrangement of
// two commands: a body is scanned for expansions according to ITS OWN delimiter.  valid selects the sentences the
// grammar model accepts (C02) or rejects (C03).
func herePairs(w *W, valid bool) {
	hs := []string{"<<E", "<<'E'", "<<-E", "<<F", "<<G", "<<'G'", "<<H", "<<I"}
	for _, h1 := range hs {
		for _, h2 := range hs {
			for _, t := range [][]string{{"a", h1, h2}, {"a", h1, "|", "b", h2}, {"a", h1, ";", "b", h2}, {"a", h1, "\n", "b", h2}, {"{", "a", h1, ";", "}", h2}, {"a", h1, "$(c)", h2}} {
				if !w.Mine() {
					continue
				}
				ss := syms(append(append([]string{}, t...), "\n")...)
				m := gramParse(ss)
				if m.dontcare != "" || m.ok != valid {
					continue
				}
				r := render(ss)
				w.Announce(r.src)
				o := runParse(r.src)
				w.Count("states", 1)
				w.Count("evaluations", 1)
				w.Count("here_document_pairs", 1)
				w.Count("traces_validated_against_impl", 1)
				w.Count("distinct_nontrivial", 1)
				var cl, d string
				if m.ok {
					cl, d = c02Judge(ss, m, r, o)
					cl = c02Class(cl, ss, r, m, o)
				} else {
					cl, d = c03Judge(ss, m, r, o)
					cl = c03Class(cl, ss, r, m, o)
				}
				if d != "" {
					w.Violation(cl, symCase{symTexts(ss), r.src}, d)
				}
			}
		}
	}
}

func c03Mutations(w *W) {
	// words that are not Names in the name positions (for variable, function name)
	derivations(w.thorough(), func(name string, texts []string) {
		if name != "WN" || !w.Mine() {
			return
		}
		ss := syms(append(append([]string{}, texts...), "\n")...)
		m := gramParse(ss)
		if m.ok || m.dontcare != "" || lexicallyEntangled(ss) {
			return
		}
		for _, r := range []rendered{render(ss), renderTight(ss)} {
			w.Announce(r.src)
			o := runParse(r.src)
			w.Count("states", 1)
			w.Count("evaluations", 1)
			w.Count("name_position_sentences_rejected_by_model", 1)
			w.Count("traces_validated_against_impl", 1)
			w.Count("distinct_nontrivial", 1)
			if cl, d := c03Judge(ss, m, r, o); d != "" {
				w.Violation(c03Class(cl, ss, r, m, o), symCase{symTexts(ss), r.src}, d)
			}
		}
	})
	herePairs(w, false)
	// substitutions with ill-formed content at the word positions of a few host sentences
	for _, bad := range []string{"`a |`", "$(a |)", "`!`", "$( ; )", "\"`a |`\"", "$(a `b |`)", "$((`;`))", "${v:-`a |`}", "<<-K", "<<K", "<<-'K'"} {
		for _, t := range [][]string{{bad}, {"a", bad}, {"a", bad, ";", "a"}, {"x=1", bad}, {"a", ">", bad}, {"if", bad, ";", "then", "a", ";", "fi"}, {"a", "<<E", bad}, {"a", "|", bad}, {"{", "a", bad, ";", "}"}} {
			if !w.Mine() {
				continue
			}
			ss := syms(append(append([]string{}, t...), "\n")...)
			m := gramParse(ss)
			if m.ok || m.dontcare != "" {
				continue
			}
			r := render(ss)
			w.Announce(r.src)
			o := runParse(r.src)
			w.Count("states", 1)
			w.Count("evaluations", 1)
			w.Count("ill_formed_substitutions", 1)
			w.Count("traces_validated_against_impl", 1)
			w.Count("distinct_nontrivial", 1)
			if cl, d := c03Judge(ss, m, r, o); d != "" {
				w.Violation(c03Class(cl, ss, r, m, o), symCase{symTexts(ss), r.src}, d)
			}
		}
	}
	// unquoted arithmetic expansions and commands whose expression holds more ')' than '(': whichever way "$((" /
	// "((" is read, the operators '(' and ')' of the command line do not balance, so every host sentence is
	// ill-formed.  (Inside double quotes a ')' after the closing "))" is literal text; and an expression whose
	// parentheses balance only in total — "1)(" — is delimited by counting and left to the evaluator: neither is
	// in this family.)
	arithParenBodies(w.thorough(), func(body string, surplus bool) {
		if !surplus {
			return
		}
		for _, form := range []string{"$((" + body + "))", "((" + body + "))"} {
			if _, ok := symTable[form]; !ok {
				symTable[form] = sym{text: form, kind: kBroken}
			}
			hosts := [][]string{{"a", form}, {"a", form, ";", "a"}, {"x=1", form}, {"if", "a", form, ";", "then", "a", ";", "fi"}, {"a", form, "$((1))"}, {"a", "<<E", form}}
			if strings.HasPrefix(form, "((") {
				hosts = [][]string{{form}, {"a", ";", form}, {"if", form, ";", "then", "a", ";", "fi"}, {form, "&&", "((1))"}, {"a", "<<E", "|", form}}
			}
			for _, t := range hosts {
				if !w.Mine() {
					continue
				}
				ss := syms(append(append([]string{}, t...), "\n")...)
				m := gramParse(ss)
				if m.ok || m.dontcare != "" {
					continue
				}
				r := render(ss)
				w.Announce(r.src)
				o := runParse(r.src)
				w.Count("states", 1)
				w.Count("evaluations", 1)
				w.Count("arithmetic_with_surplus_parenthesis", 1)
				w.Count("traces_validated_against_impl", 1)
				w.Count("distinct_nontrivial", 1)
				if cl, d := c03Judge(ss, m, r, o); d != "" {
					w.Violation(c03Class(cl, ss, r, m, o), symCase{symTexts(ss), r.src}, d)
				}
			}
		}
	})
	mutants(w, func(ss []sym) {
		if lexicallyEntangled(ss) {
			return
		}
		m := gramParse(ss)
		if m.dontcare != "" || m.ok {
			return
		}
		r := render(ss)
		w.Announce(r.src)
		o := runParse(r.src)
		w.Count("states", 1)
		w.Count("transitions", int64(len(ss)))
		w.Count("evaluations", 1)
		w.Count("mutants_rejected_by_model", 1)
		w.Count("traces_validated_against_impl", 1)
		w.Count("distinct_nontrivial", 1)
		if cl, d := c03Judge(ss, m, r, o); d != "" {
			w.Violation(c03Class(cl, ss, r, m, o), mkSymCase(ss), d)
		}
	})
}

// arithParenBodies enumerates the arithmetic expression texts of ≤ 5 (thorough 6) characters over
// {1 ( ) + space}: surplus = more ')' than '('; the others reported are balanced with no prefix going negative.
func arithParenBodies(thorough bool, f func(body string, surplus bool)) {
	n := 5
	if thorough {
		n = 6
	}
	var rec func(cur []byte)
	rec = func(cur []byte) {
		if len(cur) > 0 {
			depth, neg := 0, false
			for _, c := range cur {
				switch c {
				case '(':
					depth++
				case ')':
					depth--
				}
				if depth < 0 {
					neg = true
				}
			}
			switch {
			case depth < 0:
				f(string(cur), true)
			case depth == 0 && !neg && strings.ContainsAny(string(cur), "1"):
				f(string(cur), false)
			}
		}
		if len(cur) == n {
			return
		}
		for _, c := range []byte("1()+ ") {
			rec(append(cur, c))
		}
	}
	rec(nil)
}

func arithBalancedJudge(src string, o parseObs) string {
	switch {
	case o.pan != nil:
		return fmt.Sprintf("ParseCommands(%q) panicked: %v", src, o.pan)
	case o.err != nil:
		return fmt.Sprintf("ParseCommands(%q) fails with %v; the parentheses of the arithmetic expression balance", src, o.err)
	case len(o.cmds) != 1:
		return fmt.Sprintf("ParseCommands(%q) returns %d commands, expected 1", src, len(o.cmds))
	}
	// blanks inside the expression are not part of any word part
	if p, ok := printNode(o.cmds[0]); !ok || strings.ReplaceAll(p+"\n", " ", "") != strings.ReplaceAll(src, " ", "") {
		return fmt.Sprintf("ParseCommands(%q): the command prints as %q, the expression text is not kept", src, p)
	}
	return ""
}

// registerDynamicSymbols makes the symbols that are generated at run time (word space WG, arithmetic texts with
// a surplus parenthesis) known to a replay.
func registerDynamicSymbols() {
	generatedWords()
	arithParenBodies(true, func(body string, surplus bool) {
		if surplus {
			for _, form := range []string{"$((" + body + "))", "((" + body + "))"} {
				if _, ok := symTable[form]; !ok {
					symTable[form] = sym{text: form, kind: kBroken}
				}
			}
		}
	})
}

// c02Mutations: the mutants the grammar still derives are judged like any other accepted sentence.
func c02Mutations(w *W) {
	herePairs(w, true)
	// balanced parentheses inside an arithmetic expansion / command: accepted, the expression text kept as written
	arithParenBodies(w.thorough(), func(body string, surplus bool) {
		if surplus || !w.Mine() {
			return
		}
		for _, src := range []string{"a $((" + body + "))\n", "((" + body + "))\n", "a \"$((" + body + "))\" b\n"} {
			w.Announce(src)
			o := runParse(src)
			w.Count("states", 1)
			w.Count("evaluations", 1)
			w.Count("arithmetic_with_balanced_parentheses", 1)
			w.Count("traces_validated_against_impl", 1)
			w.Count("distinct_nontrivial", 1)
			d := arithBalancedJudge(src, o)
			if d != "" {
				w.Violation("arith-paren", symCase{nil, src}, d)
			}
		}
	})
	mutants(w, func(ss []sym) {
		if lexicallyEntangled(ss) {
			return
		}
		m := gramParse(ss)
		if m.dontcare != "" || !m.ok {
			return
		}
		r := render(ss)
		w.Announce(r.src)
		o := runParse(r.src)
		w.Count("states", 1)
		w.Count("transitions", int64(len(ss)))
		w.Count("evaluations", 1)
		w.Count("mutants_accepted_by_model", 1)
		w.Count("traces_validated_against_impl", 1)
		w.Count("distinct_nontrivial", 1)
		if cl, d := c02Judge(ss, m, r, o); d != "" {
			w.Violation(c02Class(cl, ss, r, m, o), mkSymCase(ss), d)
		}
	})
}

// lexicallyEntangled: an unterminated quote / expansion symbol is followed by
// a symbol that contains its closing character, so the text no longer splits
// into the tokens the symbol string stands for ('q 'q is one quoted word).
// Such strings are not judged.
func lexicallyEntangled(ss []sym) bool {
	// a comment runs to the end of the line: a later symbol on that line that itself contains a newline
	// (a multi-line quoted word) ends the comment in its middle
	inComment := false
	for _, s := range ss {
		switch {
		case s.kind == kNL:
			inComment = false
		case s.kind == kComment:
			inComment = true
		case inComment && strings.Contains(s.text, "\n"):
			return true
		}
	}
	for i, s := range ss {
		if s.kind != kBroken {
			continue
		}
		var closer string
		switch s.text {
		case "'q":
			closer = "'"
		case `"q`:
			closer = `"`
		case "`":
			closer = "`"
		case "${v", "${", "${v:-":
			closer = "}"
		case "$(", "$((":
			closer = ")"
		}
		for _, t := range ss[i+1:] {
			if strings.Contains(t.text, closer) {
				return true
			}
		}
	}
	return false
}
