package main

// Derivation enumerator: walks derivations of the grammar under structural
// bounds instead of a length bound (DESIGN.md §2 "Deep derivations").  A
// sentence is a symbol string; its expected AST comes from the grammar model,
// which must accept every generated sentence (self-consistency check).

import (
	"strings"
)

// compound command templates; holes: @L command list, @W word, @N name
var compoundTemplates = [][]string{
	{"(", "@L", ")"},
	{"{", "@L", ";", "}"},
	{"if", "@L", ";", "then", "@L", ";", "fi"},
	{"if", "@L", ";", "then", "@L", ";", "else", "@L", ";", "fi"},
	{"if", "@L", ";", "then", "@L", ";", "elif", "@L", ";", "then", "@L", ";", "fi"},
	{"if", "@L", ";", "then", "@L", ";", "elif", "@L", ";", "then", "@L", ";", "else", "@L", ";", "fi"},
	{"while", "@L", ";", "do", "@L", ";", "done"},
	{"until", "@L", ";", "do", "@L", ";", "done"},
	{"for", "x", "in", "@W", "@W", ";", "do", "@L", ";", "done"},
	{"for", "x", "in", ";", "do", "@L", ";", "done"},
	{"for", "x", ";", "do", "@L", ";", "done"},
	{"for", "x", "do", "@L", ";", "done"},
	{"case", "@W", "in", "@W", ")", "@L", ";;", "esac"},
	{"case", "@W", "in", "@W", "|", "@W", ")", "@L", ";;", "(", "@W", ")", ";;", "esac"},
	{"case", "@W", "in", "(", "@W", ")", "@L", ";", "esac"},
	{"case", "@W", "in", "@W", ")", "@L", ";", "esac"},
	{"case", "@W", "in", "esac"},
	{"f", "(", ")", "{", "@L", ";", "}"},
	{"f", "(", ")", "(", "@L", ")"},
	{"f", "(", ")", "if", "@L", ";", "then", "@L", ";", "fi"},
	{"((1))"},
}

// trailing redirections of a compound command
var compoundRedirs = [][]string{nil, {">", "f"}, {"<<E"}, {"2>", "f", "<", "f"}}

// leaf commands (simple commands with/without assignments, redirections before/after, here-documents)
var leafCommands = [][]string{
	{"a"}, {"a", "b"}, {"x=1"}, {"x=1", "a"}, {">", "f", "a"}, {"a", ">", "f"}, {"2>", "f", "a", "b"}, {"a", "<<E"}, {"x=1", ">", "f", "a", "b", "<", "f"},
	{"x=", "x=1", "a"}, {"a", "<<E", "<<F"}, {"<<-E", "a"},
	{"a", "'q\né'"}, {"a", "$(b\nc)", "b"}, {"a", "<<E", "a\\\nb"}, {"((1 +\n2))"}, {"a", "<<J"}, {"a", "<<'J'", "b"}, {"a", "<<L"},
}

// list forms over two leaves
func listForms(c1, c2 []string) [][]string {
	j := func(parts ...[]string) []string {
		var out []string
		for _, p := range parts {
			out = append(out, p...)
		}
		return out
	}
	s := func(t string) []string { return []string{t} }
	return [][]string{
		c1,
		j(c1, s(";"), c2),
		j(c1, s("&"), c2),
		j(c1, s("&&"), c2),
		j(c1, s("||"), c2),
		j(c1, s("|"), c2),
		j(s("!"), c1),
		j(s("!"), c1, s("|"), c2),
		j(c1, s("&&"), c2, s("||"), c1),
		j(c1, s("|"), c2, s("&&"), c1, s(";"), c2),
		j(c1, s("&")),
	}
}

func fill(t []string, lists [][]string, words []string) []string {
	var out []string
	li, wi := 0, 0
	skipSemi := false
	for _, p := range t {
		if skipSemi && p == ";" {
			skipSemi = false
			continue // "a &" is already terminated
		}
		skipSemi = false
		switch p {
		case "@L":
			l := lists[li%len(lists)]
			out = append(out, l...)
			skipSemi = len(l) > 0 && l[len(l)-1] == "&"
			li++
		case "@W":
			out = append(out, words[wi%len(words)])
			wi++
		default:
			out = append(out, p)
		}
	}
	return out
}

func countHoles(t []string, h string) int {
	n := 0
	for _, p := range t {
		if p == h {
			n++
		}
	}
	return n
}

// derivations calls f with every sentence of the structural sets.
//
//	D(1,2): every compound template, every list hole filled in turn with every list form over every pair of leaves
//	D(2):   every compound (with every trailing redirection) in every list hole of every compound
//	D(3):   three levels of nesting with default leaves
//	words:  every word symbol at every word position
func derivations(thorough bool, f func(name string, ss []string)) {
	def := [][]string{{"a"}}
	defW := []string{"a"}
	leaves := leafCommands
	// D(1,2)
	for ti, t := range compoundTemplates {
		nl := countHoles(t, "@L")
		f("D1", fill(t, def, defW))
		for h := 0; h < nl; h++ {
			for i, c1 := range leaves {
				for k, c2 := range leaves {
					if !thorough && (i+k+ti)%3 != 0 && i != k {
						continue // quick tier: a third of the off-diagonal pairs
					}
					for _, lf := range listForms(c1, c2) {
						lists := make([][]string, nl)
						for q := range lists {
							lists[q] = []string{"a"}
						}
						lists[h] = lf
						f("D1", fill(t, lists, defW))
					}
				}
			}
		}
	}
	// DH: a here-document earlier on the line, then a compound command whose holes hold each leaf
	// (here-documents in conditions and bodies, multi-line words) — the printer has to interleave the bodies
	for _, t := range compoundTemplates {
		nl := countHoles(t, "@L")
		for h := 0; h < nl; h++ {
			for _, leaf := range leaves {
				lists := make([][]string, nl)
				for q := range lists {
					lists[q] = []string{"a"}
				}
				lists[h] = leaf
				in := fill(t, lists, defW)
				for _, pre := range [][]string{{"a", "<<F", "|"}, {"a", "<<F", "&&"}, {"a", "<<F", ";"}, {"{", "a", ";", "}", "<<F", "|"},
					{"a", "<<F", "|", "a", "$(b\nc)", "|"}, {"a", "<<F", "&&", "a", "'q\né'", "&&"}, {"a", "<<F", "$(b\nc)", "|"}, {"a", "<<E", "|"}, {"a", "<<'E'", "|"}, {"a", "<<'E'", "&&"}} {
					f("DH", append(append([]string{}, pre...), in...))
				}
			}
		}
	}
	// top level lists of compounds and leaves
	for _, c1 := range leaves {
		for _, c2 := range leaves {
			for _, lf := range listForms(c1, c2) {
				f("D0", lf)
			}
		}
	}
	// arithmetic commands whose expression has several parts
	for _, t := range [][]string{{"((é+$v))"}, {"a", ";", "((é+$v))"}, {"((é+$v))", "&&", "a"}, {"if", "((é+$v))", ";", "then", "a", ";", "fi"}, {"((é+$v))", ">", "f"}, {"((é + 1))"}, {"a", "&&", "((é + 1))"}} {
		f("D0", t)
	}
	// D(2): compound inside compound
	var inner [][]string
	for _, t := range compoundTemplates {
		for _, r := range compoundRedirs {
			inner = append(inner, append(fill(t, def, defW), r...))
		}
	}
	for _, t := range compoundTemplates {
		nl := countHoles(t, "@L")
		for h := 0; h < nl; h++ {
			for _, in := range inner {
				for _, lf := range listForms(in, []string{"a"}) {
					lists := make([][]string, nl)
					for q := range lists {
						lists[q] = []string{"a"}
					}
					lists[h] = lf
					f("D2", fill(t, lists, defW))
				}
			}
		}
	}
	// DC: a compound command, with each trailing redirection, as the LAST command of a list hole with no separator
	// before the enclosing construct's next reserved word ("if a; then { a; } >f fi"): reserved words are
	// recognised directly after a compound command's closing token and after its redirections
	for _, t := range compoundTemplates {
		nl := countHoles(t, "@L")
		for h := 0; h < nl; h++ {
			for _, in := range inner {
				for _, pre := range [][]string{nil, {"a", ";"}, {"a", "|"}} {
					lists := make([][]string, nl)
					for q := range lists {
						lists[q] = []string{"a"}
					}
					lists[h] = append(append(append([]string{}, pre...), in...), "@NOSEP")
					filled := fill(t, lists, defW)
					var out []string
					dropped := false
					for i := 0; i < len(filled); i++ {
						if filled[i] == "@NOSEP" {
							if i+1 < len(filled) && filled[i+1] == ";" {
								i++
								dropped = true
							}
							continue
						}
						out = append(out, filled[i])
					}
					if dropped {
						f("DC", out)
					}
				}
			}
		}
	}
	// compound with redirection at top level, in lists
	for _, in := range inner {
		for _, lf := range listForms(in, in) {
			f("D2", lf)
		}
	}
	// D(3): three levels, default leaves, first hole only plus last hole
	base := make([][]string, 0)
	for _, t := range compoundTemplates {
		base = append(base, fill(t, def, defW))
	}
	for _, t1 := range compoundTemplates {
		n1 := countHoles(t1, "@L")
		if n1 == 0 {
			continue
		}
		for _, t2 := range compoundTemplates {
			n2 := countHoles(t2, "@L")
			if n2 == 0 {
				continue
			}
			for _, b := range base {
				for _, h2 := range []int{0, n2 - 1} {
					l2 := make([][]string, n2)
					for q := range l2 {
						l2[q] = []string{"a"}
					}
					l2[h2] = b
					mid := fill(t2, l2, defW)
					for _, h1 := range []int{0, n1 - 1} {
						l1 := make([][]string, n1)
						for q := range l1 {
							l1[q] = []string{"a"}
						}
						l1[h1] = mid
						f("D3", fill(t1, l1, defW))
					}
				}
			}
		}
	}
	// generated words (wordgen.go) at the main word positions
	for _, wd := range generatedWords() {
		f("WG", []string{"a", wd})
		f("WG", []string{wd, "a"})
		f("WG", []string{"a", ">", wd})
		f("WG", []string{"case", wd, "in", wd, ")", "a", ";;", "esac"})
		f("WG", []string{"for", "x", "in", wd, ";", "do", "a", ";", "done"})
	}
	// word menu at every word position
	var menu []string
	gen := map[string]bool{}
	for _, t := range generatedWords() {
		gen[t] = true
	}
	for t, s := range symTable {
		if s.kind == kWord && !gen[t] {
			menu = append(menu, t)
		}
	}
	sortStrings(menu)
	for _, wd := range menu {
		s := symTable[wd]
		_, isAsg := isAssignSym(&s)
		f("W", []string{"a", wd})           // argument
		f("W", []string{"a", wd, wd})       // two arguments
		f("W", []string{"a", ">", wd})      // redirection target
		f("W", []string{"a", wd, ">", "f"}) // word directly before a redirection (tight layout: a -1>f)
		f("W", []string{"a", wd, "<<E"})
		f("W", []string{"{", "a", ";", "}", ">", "f", "2>", wd})
		f("W", []string{"2>", wd, "a"}) // redirection target in the prefix
		f("W", []string{"{", "a", ";", "}", ">", wd})
		f("W", []string{"for", "x", "in", wd, "b", ";", "do", "a", ";", "done"})
		f("W", []string{"for", "x", "in", "a", wd, ";", "do", "a", ";", "done"})
		f("W", []string{"case", wd, "in", "a", ")", "a", ";;", "esac"})
		// name positions: the model decides whether the word is a Name (for variable, function name)
		f("WN", []string{"for", wd, "in", "a", ";", "do", "a", ";", "done"})
		f("WN", []string{"for", wd, ";", "do", "a", ";", "done"})
		f("WN", []string{wd, "(", ")", "{", "a", ";", "}"})
		if wd != "esac" {
			f("W", []string{"case", "a", "in", wd, ")", "a", ";;", "esac"})
			f("W", []string{"case", "a", "in", "a", "|", wd, ")", "a", ";;", "esac"})
			f("W", []string{"case", "a", "in", "(", wd, ")", "a", ";;", "esac"})
		}
		if !reservedWords[wd] && !isAsg {
			f("W", []string{wd})        // command name
			f("W", []string{wd, "a"})   //
			f("W", []string{"x=1", wd}) // command name after an assignment
		}
		if reservedWords[wd] {
			f("W", []string{"x=1", wd}) // after a prefix a reserved word is an ordinary command name
			f("W", []string{">", "f", wd})
		}
		if isAsg {
			f("W", []string{wd})
			f("W", []string{wd, "a"})
			f("W", []string{wd, wd, "a", wd})
		}
	}
}

func sortStrings(a []string) {
	for i := 1; i < len(a); i++ {
		for j := i; j > 0 && a[j] < a[j-1]; j-- {
			a[j], a[j-1] = a[j-1], a[j]
		}
	}
}

// multiLine returns the multi-line layout of a sentence: every ';' that the
// grammar model says could equally be a newline becomes a newline (never at
// the top level, where a newline would end the command).
func multiLine(ss []sym, m gramResult) []sym {
	out := append([]sym{}, ss...)
	nl := symTable["\n"]
	for i, s := range ss {
		if s.kind == kOp && s.op == ";" && m.sepAt[i] {
			out[i] = nl
		}
	}
	return out
}

// semiNewline returns the layout in which every such ';' stays and is followed by a newline
// (separator: separator_op linebreak; sequential_sep: ';' linebreak), or nil if there is none.
func semiNewline(ss []sym, m gramResult) []sym {
	nl := symTable["\n"]
	var out []sym
	changed := false
	for i, s := range ss {
		out = append(out, s)
		if s.kind == kOp && s.op == ";" && m.sepAt[i] {
			out = append(out, nl)
			changed = true
		}
	}
	if !changed {
		return nil
	}
	return out
}

// semiNewlineFamily: the families that are also laid out with ';' + newline in the quick tier.
func semiNewlineFamily(name string, thorough bool) bool {
	switch name {
	case "D0", "D1", "D2", "DH", "DC":
		return true
	}
	return thorough
}

func joinTexts(ss []string) string { return strings.Join(ss, " ") }
