#!/bin/bash
# usage: tools/seed4.sh <Cxx> [more check ids]   ingest a round-5 seed from /tmp/seedwork5, confirm it, run the property's check against it
id=$1; shift
src=/tmp/seedwork5/$id/out; dst=/verif/seeded/$id-r5
[ -f $src/patch.diff ] || { echo "$id: no patch.diff"; exit 1; }
mkdir -p $dst && cp -r $src/. $dst/
SEEDBASE=HEAD /verif/tools/seedverify.sh $id-r5
SEEDALT_SHOW=1 /verif/tools/seedalt.sh $dst/patch.diff HEAD $id "$@"
