package main

import (
	"fmt"
	"runtime"
	"strings"
	"unicode/utf8"

	"github.com/hattya/go.sh/ast"
	"github.com/hattya/go.sh/interp"
	"github.com/hattya/go.sh/parser"
)

// alphabets of the parser checks (DESIGN.md §2 E1)
var (
	sigmaFull = []string{"a", "b", "x=1", "x=", "1", "é", "'q'", `"d"`, `"$v"`, `\e`, "$v", "${v}", "${v:-w}", "$(c)", "`c`", "$((1))", "2>", "a$",
		"!", "{", "}", "for", "in", "do", "done", "case", "esac", "if", "then", "elif", "else", "fi", "while", "until",
		";", "&", "|", "&&", "||", ";;", "(", ")", "<", ">", ">>", ">|", "<&", ">&", "<>", "<<E", "<<-E", "((1))", "\n", "#c",
		"'q", `"q`, "${v", "$(", "`", "$(("}
	sigmaCore = []string{"a", "x=1", "1", "'q'", `"$v"`, "$(c)", "${v:-w}", "2>",
		"!", "{", "}", "for", "in", "do", "done", "case", "esac", "if", "then", "elif", "else", "fi", "while", "until",
		";", "&", "|", "&&", "||", ";;", "(", ")", ">", "<<E", "((1))", "\n", "#c", "'q"}
	sigmaMin  = []string{"a", "x=1", "{", "}", "if", "then", "fi", "for", "in", "do", "done", "case", "esac", ";", ";;", "|", "(", ")", ">", "\n"}
	sigmaTiny = []string{"a", "{", "}", "if", "then", "fi", "while", "do", "done", ";", "(", ")", "\n", "!", "&&", "<<E"}
)

type alphaBound struct {
	name  string
	sigma []string
	n     int
}

func parseBounds(tier string) []alphaBound {
	if tier == "thorough" {
		return []alphaBound{{"full", sigmaFull, 4}, {"core", sigmaCore, 5}, {"min", sigmaMin, 6}, {"tiny", sigmaTiny, 7}}
	}
	return []alphaBound{{"full", sigmaFull, 3}, {"core", sigmaCore, 4}, {"min", sigmaMin, 5}, {"tiny", sigmaTiny, 6}}
}

// genSyms enumerates every non-empty symbol string of length ≤ n over sigma
// (length-lexicographic DFS order); f gets a slice it must not keep.
func genSyms(sigma []string, n int, f func([]sym)) {
	alpha := syms(sigma...)
	cur := make([]sym, 0, n)
	var rec func()
	rec = func() {
		if len(cur) > 0 {
			f(cur)
		}
		if len(cur) == n {
			return
		}
		for _, s := range alpha {
			cur = append(cur, s)
			rec()
			cur = cur[:len(cur)-1]
		}
	}
	rec()
}

type countingReader struct {
	r     *strings.Reader
	reads int
}

func (c *countingReader) ReadRune() (rune, int, error) { c.reads++; return c.r.ReadRune() }
func (c *countingReader) UnreadRune() error            { return c.r.UnreadRune() }

type parseObs struct {
	cmds     []ast.Command
	comments []*ast.Comment
	err      error
	pan      interface{}
	rest     int // bytes not consumed
	reads    int
}

var baseGoroutines = 0

// quiesce yields until the goroutines started by the call are gone, so that
// an asynchronous crash is attributed to the case that caused it.
func quiesce() (leaked int) {
	if baseGoroutines == 0 {
		baseGoroutines = runtime.NumGoroutine()
		return 0
	}
	for i := 0; i < 200 && runtime.NumGoroutine() > baseGoroutines; i++ {
		runtime.Gosched()
	}
	return runtime.NumGoroutine() - baseGoroutines
}

func runParseEnv(env *interp.ExecEnv, src string) (o parseObs) {
	if baseGoroutines == 0 {
		baseGoroutines = runtime.NumGoroutine()
	}
	rd := &countingReader{r: strings.NewReader(src)}
	func() {
		defer func() { o.pan = recover() }()
		o.cmds, o.comments, o.err = parser.ParseCommands(env, "t", rd)
	}()
	o.rest = rd.r.Len()
	o.reads = rd.reads
	quiesce()
	return
}

func runParse(src string) parseObs { return runParseEnv(nil, src) }

// parseAll parses every command of src with successive calls.
func parseAll(src string) (cmds []ast.Command, comments []*ast.Comment, err error) {
	r := strings.NewReader(src)
	for r.Len() > 0 {
		c, cm, e := parser.ParseCommands(nil, "t", r)
		cmds = append(cmds, c...)
		comments = append(comments, cm...)
		if e != nil {
			return cmds, comments, e
		}
	}
	return cmds, comments, nil
}

func commentTexts(cs []*ast.Comment) []string {
	var out []string
	for _, c := range cs {
		out = append(out, c.Text)
	}
	return out
}

// posOffset converts a line:col (columns count characters) into a byte offset of src; -1 if outside.
func posOffset(src string, p ast.Pos) int {
	if p.Line() < 1 || p.Col() < 1 {
		return -1
	}
	line, col, off := 1, 1, 0
	for off <= len(src) {
		if line == p.Line() && col == p.Col() {
			return off
		}
		if off == len(src) {
			break
		}
		r, w := utf8.DecodeRuneInString(src[off:])
		if r == '\n' {
			if line == p.Line() {
				return -1
			}
			line++
			col = 1
		} else {
			col++
		}
		off += w
	}
	return -1
}

func describeObs(o parseObs) string {
	if o.pan != nil {
		return fmt.Sprintf("panic: %v", o.pan)
	}
	var b strings.Builder
	fmt.Fprintf(&b, "err=%v cmds=%s", o.err, dumpAST(o.cmds, false))
	return b.String()
}
