package main

// C14 — field splitting.
//
// Space: all words of ≤ N segments over {ordinary, IFS white space, IFS
// non-white-space, non-IFS white space, quoted ordinary, quoted IFS white
// space, quoted IFS non-white-space, empty quotes} × 7 IFS settings × 2
// realisations (literal parts / parameter expansions).  Words are built as AST
// nodes.  Oracle: a splitter written from the statement.

import (
	"encoding/json"
	"fmt"
	"reflect"
	"strings"
	"unicode"

	"github.com/hattya/go.sh/ast"
	"github.com/hattya/go.sh/interp"
)

type c14Seg struct {
	Text   string `json:"text"`
	Quoted bool   `json:"quoted"`
}

type c14Case struct {
	IFS    string   `json:"ifs"`
	IFSSet bool     `json:"ifs_set"`
	Real   int      `json:"realisation"`
	Segs   []c14Seg `json:"segs"`
}

// c14Ref: cut the unquoted text at every IFS character; quoted text is never
// cut; a quoted part (even empty) makes its field count; empty fields holding
// nothing quoted are dropped.  Because such empty fields are dropped, "runs of
// IFS white space collapse" and "a non-white-space IFS character absorbs
// adjacent IFS white space" need no separate treatment.
func c14Ref(segs []c14Seg, ifs string, set bool) []string {
	if !set {
		ifs = " \t\n"
	}
	type fld struct {
		b strings.Builder
		q bool
	}
	var out []string
	cur := &fld{}
	flush := func() {
		if cur.b.Len() > 0 || cur.q {
			out = append(out, cur.b.String())
		}
		cur = &fld{}
	}
	for _, s := range segs {
		if s.Quoted {
			cur.q = true
			cur.b.WriteString(s.Text)
			continue
		}
		for _, r := range s.Text {
			if strings.ContainsRune(ifs, r) {
				flush()
			} else {
				cur.b.WriteRune(r)
			}
		}
	}
	flush()
	return out
}

func c14Build(c c14Case) (*interp.ExecEnv, ast.Word) {
	env := interp.NewExecEnv("sh")
	env.Opts = interp.NoGlob
	if c.IFSSet {
		env.Set("IFS", c.IFS)
	} else {
		env.Unset("IFS")
	}
	var w ast.Word
	for k, s := range c.Segs {
		var inner ast.WordPart = &ast.Lit{Value: s.Text}
		if s.Text == "" && !s.Quoted && c.Real != 1 {
			// an unquoted expansion that produces nothing: ${u:-} with u unset
			inner = &ast.ParamExp{Braces: true, Name: &ast.Lit{Value: "u"}, Op: ":-", Word: ast.Word{}}
		}
		if c.Real == 1 {
			name := fmt.Sprintf("v%d", k)
			env.Set(name, s.Text)
			inner = &ast.ParamExp{Name: &ast.Lit{Value: name}}
		}
		if c.Real == 3 {
			// the segment's text is the literal word of ${u:-…} (u unset): split like any other unquoted text
			var word ast.Word
			if s.Text != "" {
				word = ast.Word{&ast.Lit{Value: s.Text}}
			}
			inner = &ast.ParamExp{Braces: true, Name: &ast.Lit{Value: "u"}, Op: ":-", Word: word}
		}
		switch {
		case !s.Quoted:
			w = append(w, inner)
		case s.Text == "" && (c.Real == 0 || c.Real == 3):
			w = append(w, &ast.Quote{Tok: `"`, Value: ast.Word{}})
		case c.Real == 2:
			w = append(w, &ast.Quote{Tok: `'`, Value: ast.Word{&ast.Lit{Value: s.Text}}})
		default:
			w = append(w, &ast.Quote{Tok: `"`, Value: ast.Word{inner}})
		}
	}
	return env, w
}

func c14Judge(c c14Case) (string, bool) {
	env, w := c14Build(c)
	var got []string
	var err error
	var pan interface{}
	func() {
		defer func() { pan = recover() }()
		got, err = env.Expand(w, 0)
	}()
	want := c14Ref(c.Segs, c.IFS, c.IFSSet)
	nt := len(want) > 1
	if pan != nil {
		return fmt.Sprintf("Expand panicked: %v", pan), true
	}
	if err != nil {
		return fmt.Sprintf("Expand failed: %v", err), true
	}
	if len(got) == 0 && len(want) == 0 {
		return "", nt
	}
	if !reflect.DeepEqual(got, want) {
		return fmt.Sprintf("IFS=%q(set=%v) segments=%+v realisation=%d: Expand gives %q, the rule gives %q", c.IFS, c.IFSSet, c.Segs, c.Real, got, want), true
	}
	return "", nt
}

func init() {
	register(&check{
		id:    "C14",
		level: "model_checking",
		rule: "every word of ≤ N segments (N=6 quick, 7 thorough) over the segment kinds (incl. an unquoted expansion that produces nothing, ${u:-} / an empty $var) × IFS ∈ {unset, default, ' ,', ',', ':', '', 'é,', '|', ' x', '_~<nl>', '\\@', '<nl>', ' '} (white space outside IFS — tab, space, newline or CR — is a segment kind of its own, also between ordinary characters when IFS is white space only) × realisations {literal parts, $var parts, single-quoted, and for words of ≤ 4 segments the literal word of ${u:-…}}; " +
			"plus words of 1…40 repetitions of 9 segment units; plus histories on ONE environment: every sequence of ≤ 3 (thorough 4) IFS settings with 5 probe words (literal and through a variable) expanded after each change, and every pair (IFS₁, probe) → (IFS₂, word ≤ 3 characters over {a space , : é tab}); " +
			"non-trivial = the rule yields ≥ 2 fields (the word really is cut), and every history",
		assume: []string{"reference splitter written from the property statement (c14Ref)", "NoGlob set so that pathname expansion does not interfere; words are AST values (white space cannot be written literally)"},
		run:    c14Run,
		replay: func(raw json.RawMessage) error {
			var h c14History
			if err := json.Unmarshal(raw, &h); err == nil && len(h.Steps) > 0 {
				if d := c14HistJudge(h); d != "" {
					return fmt.Errorf("%s", d)
				}
				return nil
			}
			var c c14Case
			if err := json.Unmarshal(raw, &c); err != nil {
				return err
			}
			if d, _ := c14Judge(c); d != "" {
				return fmt.Errorf("%s", d)
			}
			return nil
		},
	})
}

func c14Run(w *W) {
	n := 6
	if w.thorough() {
		n = 7
	}
	ifsList := []struct {
		v   string
		set bool
	}{{"", false}, {" \t\n", true}, {" ,", true}, {",", true}, {":", true}, {"", true}, {"é,", true}, {"|", true}, {" x", true}, {"_~\n", true}, {"\\@", true}, {"\n", true}, {" ", true}}
	for ii, ifs := range ifsList {
		eff := ifs.v
		if !ifs.set {
			eff = " \t\n"
		}
		var ws, nws, other string
		for _, r := range eff {
			if unicode.IsSpace(r) && ws == "" {
				ws = string(r)
			}
			if !unicode.IsSpace(r) && nws == "" {
				nws = string(r)
			}
		}
		for _, c := range []string{"\t", " ", "\n", "\r"} {
			if !strings.Contains(eff, c) {
				other = c
				break
			}
		}
		kinds := []c14Seg{{"a", false}, {"a", true}, {"", true}, {"~zz", false}}
		if ii < 3 || ifs.v == "" && ifs.set {
			kinds = append(kinds, c14Seg{"", false}) // (unset, default, ' ,' and the empty IFS)
		}
		if ws != "" {
			kinds = append(kinds, c14Seg{ws, false}, c14Seg{ws, true})
		}
		if nws != "" {
			kinds = append(kinds, c14Seg{nws, false}, c14Seg{nws, true})
		}
		if other != "" {
			kinds = append(kinds, c14Seg{other, false})
			if nws == "" {
				// IFS is white space only: white space that is not in it is ordinary text inside a field
				kinds = append(kinds, c14Seg{"a" + other + "b", false})
			}
		}
		cur := make([]c14Seg, 0, n)
		var rec func()
		rec = func() {
			if len(cur) > 0 && len(cur) <= 2 {
				w.Announce(fmt.Sprintf("IFS=%q(set=%v), words that start with the segments %+v", ifs.v, ifs.set, cur))
			}
			if len(cur) > 0 && w.Mine() {
				w.Count("states", 1)
				for real := 0; real < 4; real++ {
					if real == 3 && len(cur) > 4 {
						break // (the ${u:-text} realisation: words of ≤ 4 segments)
					}
					c := c14Case{IFS: ifs.v, IFSSet: ifs.set, Real: real, Segs: cur}
					w.Count("evaluations", 1)
					w.Count("transitions", 1)
					w.Count("traces_validated_against_impl", 1)
					d, nt := c14Judge(c)
					if nt {
						w.Count("distinct_nontrivial", 1)
						cc := c
						cc.Segs = append([]c14Seg{}, cur...)
						w.Sample(cc)
					}
					if d != "" {
						cc := c
						cc.Segs = append([]c14Seg{}, cur...)
						w.Violation("", cc, d)
					}
				}
			}
			if len(cur) == n {
				return
			}
			for _, k := range kinds {
				cur = append(cur, k)
				rec()
				cur = cur[:len(cur)-1]
			}
		}
		rec()
	}
	c14Histories(w, ifsList, n-3)
	// long words: 1 … 40 repetitions of a unit of segments (field counts above 9, long runs of delimiters)
	for rep := 1; rep <= 40; rep++ {
		if !w.Mine() {
			continue
		}
		w.Count("states", 1)
		for _, unit := range [][]c14Seg{{{"a", false}, {" ", false}}, {{"a,", false}}, {{",", false}}, {{" ", false}}, {{"a", true}, {",", false}}, {{"", true}, {" ", false}}, {{"a b", true}}, {{"a", false}, {", ", false}}, {{"é:", false}}} {
			var segs []c14Seg
			for i := 0; i < rep; i++ {
				segs = append(segs, unit...)
			}
			for _, ifs := range ifsList {
				for real := 0; real < 3; real++ {
					c := c14Case{IFS: ifs.v, IFSSet: ifs.set, Real: real, Segs: segs}
					w.Count("evaluations", 1)
					w.Count("long_words", 1)
					w.Count("traces_validated_against_impl", 1)
					d, nt := c14Judge(c)
					if nt {
						w.Count("distinct_nontrivial", 1)
					}
					if d != "" {
						w.Violation("", c, d)
					}
				}
			}
		}
	}
}

type c14Step struct {
	IFS    string `json:"ifs"`
	IFSSet bool   `json:"ifs_set"`
	Word   string `json:"word"`
	Var    bool   `json:"through_variable"`
}

type c14History struct {
	Steps []c14Step `json:"history"`
}

// c14HistJudge replays a history on ONE environment: each step sets (or unsets) IFS and expands one unquoted
// word; every step is compared with the rule for the IFS value in force at that step.
func c14HistJudge(h c14History) string {
	env := interp.NewExecEnv("sh")
	env.Opts = interp.NoGlob
	for i, st := range h.Steps {
		if st.IFSSet {
			env.Set("IFS", st.IFS)
		} else {
			env.Unset("IFS")
		}
		var wd ast.Word = ast.Word{&ast.Lit{Value: st.Word}}
		if st.Var {
			env.Set("v", st.Word)
			wd = ast.Word{&ast.ParamExp{Name: &ast.Lit{Value: "v"}}}
		}
		var got []string
		var err error
		var pan interface{}
		func() {
			defer func() { pan = recover() }()
			got, err = env.Expand(wd, 0)
		}()
		want := c14Ref([]c14Seg{{st.Word, false}}, st.IFS, st.IFSSet)
		switch {
		case pan != nil:
			return fmt.Sprintf("step %d of %s: Expand panicked: %v", i, c14Show(h.Steps[:i+1]), pan)
		case err != nil:
			return fmt.Sprintf("step %d of %s: Expand failed: %v", i, c14Show(h.Steps[:i+1]), err)
		case len(got) == 0 && len(want) == 0:
		case !reflect.DeepEqual(got, want):
			return fmt.Sprintf("step %d of the history %s on one environment: Expand(%q) under IFS=%q(set=%v) gives %q, the rule gives %q", i, c14Show(h.Steps[:i+1]), st.Word, st.IFS, st.IFSSet, got, want)
		}
	}
	return ""
}

func c14Show(steps []c14Step) string {
	var b strings.Builder
	for _, st := range steps {
		if st.IFSSet {
			fmt.Fprintf(&b, "IFS=%q; ", st.IFS)
		} else {
			b.WriteString("unset IFS; ")
		}
		fmt.Fprintf(&b, "expand %q (variable=%v); ", st.Word, st.Var)
	}
	return b.String()
}

// c14Histories: IFS changes between expansions on the same environment (state carried from call to call).
func c14Histories(w *W, ifsList []struct {
	v   string
	set bool
}, depth int) {
	probes := []string{"a b,c:d\u00e9e\tf\ng", " a ", ",a,", "::", "a\u00e9,b c", "a|bxc_d~e@f\\g"}
	var small []string
	genRunes([]rune("a ,:\u00e9\t"), 3, func(r []rune) {
		if len(r) > 0 {
			small = append(small, string(r))
		}
	})
	run := func(h c14History) {
		w.Count("evaluations", 1)
		w.Count("histories", 1)
		w.Count("transitions", int64(len(h.Steps)))
		w.Count("traces_validated_against_impl", 1)
		w.Count("distinct_nontrivial", 1)
		if d := c14HistJudge(h); d != "" {
			w.Violation("", h, d)
		}
	}
	// (a) every sequence of ≤ depth IFS settings, the probe words expanded after each change
	var rec func(cur []c14Step)
	rec = func(cur []c14Step) {
		if len(cur)/len(probes)/2 == depth {
			return
		}
		for _, ifs := range ifsList {
			next := append([]c14Step{}, cur...)
			for _, v := range []bool{false, true} {
				for _, p := range probes {
					next = append(next, c14Step{ifs.v, ifs.set, p, v})
				}
			}
			if w.Mine() {
				w.Count("states", 1)
				w.Announce("history " + c14Show(next))
				run(c14History{next})
			}
			rec(next)
		}
	}
	rec(nil)
	// (b) every pair (IFS₁, probe) then (IFS₂, word ≤ 3 characters over {a space , : é tab})
	for _, i1 := range ifsList {
		for _, p := range probes {
			for _, i2 := range ifsList {
				if !w.Mine() {
					continue
				}
				w.Count("states", 1)
				w.Announce(fmt.Sprintf("histories IFS=%q probe %q then IFS=%q and the short words", i1.v, p, i2.v))
				for _, sm := range small {
					for _, v := range []bool{false, true} {
						run(c14History{[]c14Step{{i1.v, i1.set, p, v}, {i2.v, i2.set, sm, v}}})
					}
				}
			}
		}
	}
}
