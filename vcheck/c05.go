package main

// C05 — print then parse gives back the same program, under every printer style.
// C18 — printing is an idempotent, deterministic normal form; the AST stays untouched.
//
// Space: accepted programs (symbol strings of a reduced alphabet/bound and the
// derivation sets in two layouts) × all 256 printer.Config combinations.

import (
	"bytes"
	"encoding/json"
	"errors"
	"fmt"
	"strings"

	"github.com/hattya/go.sh/ast"
	"github.com/hattya/go.sh/printer"
)

// printerFamily: derivation family of the program currently handed to the callback of printerPrograms
var printerFamily string

// printerQuick: set by the quick tier of C05/C18
var printerQuick bool

// configsFor: generated words (family WG) only meet the options that act on words, redirections and assignments,
// so they are printed under the 16 Configs that vary exactly those (each with the other options all off / all on).
func configsFor(all []*printer.Config) []*printer.Config {
	if printerFamily != "WG" {
		if printerQuick {
			// quick tier: the full factorial of the six structural options × {tab, 4 spaces}; the thorough tier
			// adds {tab with Width 4 (ignored), 1 space}
			out := make([]*printer.Config, len(all))
			for m, c := range all {
				if m&3 == 0 || m&3 == 3 {
					out[m] = c
				}
			}
			return out
		}
		return all
	}
	out := make([]*printer.Config, len(all)) // indexed like all; nil = not used
	for m, c := range all {
		if m&0xE3 == 0 || m&0xE3 == 0xE3 {
			out[m] = c
		}
	}
	return out
}

func allConfigs() []*printer.Config {
	var cfgs []*printer.Config
	for m := 0; m < 256; m++ {
		cfgs = append(cfgs, mkConfig(m))
	}
	return cfgs
}

func mkConfig(m int) *printer.Config {
	c := &printer.Config{}
	if m&1 != 0 {
		c.Indent = printer.Space
	} else {
		c.Indent = printer.Tab
	}
	if m&2 != 0 {
		c.Width = 4
	} else {
		c.Width = 1
	}
	if m&4 != 0 {
		c.Redir = printer.Before
	} else {
		c.Redir = printer.After
	}
	if m&8 != 0 {
		c.Redir |= printer.Space
	}
	if m&16 != 0 {
		c.Assign = printer.After
	} else {
		c.Assign = printer.Before
	}
	if m&32 != 0 {
		c.Do = printer.Newline
	}
	if m&64 != 0 {
		c.Case = true
	}
	if m&128 != 0 {
		c.Then = printer.Newline
	}
	return c
}

func configName(m int) string {
	c := mkConfig(m)
	return fmt.Sprintf("cfg%d{Indent:%d Width:%d Redir:%d Assign:%d Do:%d Case:%v Then:%d}", m, c.Indent, c.Width, c.Redir, c.Assign, c.Do, c.Case, c.Then)
}

// printAll prints every command followed by a newline.
func printAll(cfg *printer.Config, cmds []ast.Command) (out string, err error, pan interface{}) {
	defer func() { pan = recover() }()
	var b bytes.Buffer
	for _, c := range cmds {
		if e := cfg.Fprint(&b, c); e != nil {
			err = e
		}
		b.WriteByte('\n')
	}
	return b.String(), err, nil
}

// ---- semantic skeleton: `;`, newline and "no separator" coincide

func semCmds(b *strings.Builder, cmds []ast.Command) {
	b.WriteByte('{')
	first := true
	item := func(ao *ast.AndOrList) {
		if !first {
			b.WriteString("; ")
		}
		first = false
		semPipeline(b, ao.Pipeline)
		for _, x := range ao.List {
			b.WriteString(" " + x.Op + " ")
			semPipeline(b, x.Pipeline)
		}
		if ao.Sep == "&" {
			b.WriteString(" &")
		}
	}
	for _, c := range cmds {
		switch c := c.(type) {
		case ast.List:
			for _, ao := range c {
				item(ao)
			}
		case *ast.AndOrList:
			item(c)
		case *ast.Pipeline:
			item(&ast.AndOrList{Pipeline: c})
		case *ast.Cmd:
			item(&ast.AndOrList{Pipeline: &ast.Pipeline{Cmd: c}})
		default:
			fmt.Fprintf(b, "<%T>", c)
		}
	}
	b.WriteByte('}')
}

func semPipeline(b *strings.Builder, p *ast.Pipeline) {
	if !p.Bang.IsZero() {
		b.WriteString("! ")
	}
	semCmd(b, p.Cmd)
	for _, x := range p.List {
		b.WriteString(" | ")
		semCmd(b, x.Cmd)
	}
}

func semWords(b *strings.Builder, ws []ast.Word) {
	for i, w := range ws {
		if i > 0 {
			b.WriteByte(' ')
		}
		semWord(b, w)
	}
}

func semWord(b *strings.Builder, w ast.Word) {
	b.WriteByte('[')
	// adjacent literals are one literal (a line continuation splits a literal in the AST, not in the program)
	w = mergeAdjacentLits(w)
	for _, p := range w {
		switch p := p.(type) {
		case *ast.Lit:
			fmt.Fprintf(b, "L%q", p.Value)
		case *ast.Quote:
			fmt.Fprintf(b, "Q%s", p.Tok)
			semWord(b, p.Value)
		case *ast.ParamExp:
			fmt.Fprintf(b, "P(%v,%s,%s,", p.Braces, p.Name.Value, p.Op)
			if p.Word == nil {
				b.WriteString("nil")
			} else {
				semWord(b, p.Word)
			}
			b.WriteByte(')')
		case *ast.CmdSubst:
			fmt.Fprintf(b, "C(%v,", p.Dollar)
			semCmds(b, p.List)
			b.WriteByte(')')
		case *ast.ArithExp:
			b.WriteString("A")
			semWord(b, p.Expr)
		}
	}
	b.WriteByte(']')
}

func mergeAdjacentLits(w ast.Word) ast.Word {
	var out ast.Word
	for _, p := range w {
		if l, ok := p.(*ast.Lit); ok && len(out) > 0 {
			if pl, ok := out[len(out)-1].(*ast.Lit); ok {
				out[len(out)-1] = &ast.Lit{Value: pl.Value + l.Value}
				continue
			}
		}
		out = append(out, p)
	}
	return out
}

func semCmd(b *strings.Builder, c *ast.Cmd) {
	switch x := c.Expr.(type) {
	case *ast.SimpleCmd:
		b.WriteString("simple(")
		for _, a := range x.Assigns {
			fmt.Fprintf(b, "%s%s", a.Name.Value, a.Op)
			semWord(b, a.Value)
			b.WriteByte(' ')
		}
		b.WriteString("| ")
		semWords(b, x.Args)
		b.WriteByte(')')
	case *ast.Subshell:
		b.WriteString("subshell")
		semCmds(b, x.List)
	case *ast.Group:
		b.WriteString("group")
		semCmds(b, x.List)
	case *ast.ArithEval:
		b.WriteString("arith")
		semWord(b, x.Expr)
	case *ast.ForClause:
		fmt.Fprintf(b, "for(%s,in=%v,", x.Name.Value, !x.In.IsZero())
		semWords(b, x.Items)
		b.WriteByte(')')
		semCmds(b, x.List)
	case *ast.CaseClause:
		b.WriteString("case(")
		semWord(b, x.Word)
		for _, it := range x.Items {
			b.WriteString(" item(")
			semWords(b, it.Patterns)
			b.WriteByte(')')
			semCmds(b, it.List)
		}
		b.WriteByte(')')
	case *ast.IfClause:
		b.WriteString("if")
		semCmds(b, x.Cond)
		b.WriteString("then")
		semCmds(b, x.List)
		for _, e := range x.Else {
			switch e := e.(type) {
			case *ast.ElifClause:
				b.WriteString("elif")
				semCmds(b, e.Cond)
				b.WriteString("then")
				semCmds(b, e.List)
			case *ast.ElseClause:
				b.WriteString("else")
				semCmds(b, e.List)
			}
		}
		b.WriteString("fi")
	case *ast.WhileClause:
		b.WriteString("while")
		semCmds(b, x.Cond)
		b.WriteString("do")
		semCmds(b, x.List)
	case *ast.UntilClause:
		b.WriteString("until")
		semCmds(b, x.Cond)
		b.WriteString("do")
		semCmds(b, x.List)
	case *ast.FuncDef:
		fmt.Fprintf(b, "func(%s)", x.Name.Value)
		semCmds(b, []ast.Command{x.Body})
	case nil:
		b.WriteString("nil")
	default:
		fmt.Fprintf(b, "<%T>", x)
	}
	for _, r := range c.Redirs {
		b.WriteString(" redir(")
		if r.N != nil {
			b.WriteString(r.N.Value)
		}
		b.WriteString(r.Op)
		semWord(b, r.Word)
		if r.Op == "<<" || r.Op == "<<-" {
			// body and delimiter line, byte for byte, plus how the body was scanned
			body, _ := printNode(r.Heredoc)
			delim, _ := printNode(r.Delim)
			fmt.Fprintf(b, " body=%q delim=%q parts=", body, delim)
			semWord(b, r.Heredoc)
		}
		b.WriteByte(')')
	}
}

func semDump(cmds []ast.Command) string {
	var b strings.Builder
	semCmds(&b, cmds)
	return b.String()
}

type printCase struct {
	Src    string `json:"source"`
	Config int    `json:"config"`
}

// c05Judge prints cmds under every config and checks the round trip.
func c05Judge(w *W, src string, cmds []ast.Command, cfgs []*printer.Config) {
	want := semDump(cmds)
	seen := map[string]bool{}
	for ci, cfg := range cfgs {
		if cfg == nil {
			continue
		}
		w.Count("evaluations", 1)
		out, err, pan := printAll(cfg, cmds)
		if pan != nil {
			w.Violation("print-panic", printCase{src, ci}, fmt.Sprintf("Fprint of the program parsed from %q panicked under %s: %v", src, configName(ci), pan))
			return
		}
		if err != nil {
			w.Violation("print-error", printCase{src, ci}, fmt.Sprintf("Fprint of %q fails under %s: %v", src, configName(ci), err))
			return
		}
		if seen[out] {
			continue
		}
		seen[out] = true
		w.Count("distinct_outputs_parsed", 1)
		w.Count("traces_validated_against_impl", 1)
		back, _, perr := parseAll(out)
		if perr != nil {
			w.Violation(c05Class("reparse", src, out), printCase{src, ci}, fmt.Sprintf("%q printed under %s gives %q, which the parser rejects: %v", src, configName(ci), out, perr))
			return
		}
		if got := semDump(back); got != want {
			w.Violation(c05Class("different-program", src, out), printCase{src, ci}, fmt.Sprintf("%q printed under %s gives %q, which is a different program\n got  %s\n want %s", src, configName(ci), out, got, want))
			return
		}
	}
}

func c05Class(cl, src, out string) string { return cl }

// printerPrograms enumerates the accepted programs of the printer checks.
func printerPrograms(w *W, f func(src string, cmds []ast.Command)) {
	n := 4
	if w.thorough() {
		n = 5
	}
	sigma := []string{"a", "x=1", "'q'", "$(c)", "2>", "!", "{", "}", "for", "in", "do", "done", "case", "esac", "if", "then", "else", "fi", "while",
		";", "&", "|", "&&", ";;", "(", ")", ">", "<<E", "((1))", "\n", "#c", "x", "a\\\nb"}
	one := func(ss []sym, r rendered) {
		if lexicallyEntangled(ss) {
			return
		}
		w.Announce(r.src)
		cmds, _, err := parseAll(r.src)
		if err != nil || len(cmds) == 0 {
			return
		}
		quiesce()
		w.Count("states", 1)
		w.Count("transitions", int64(len(ss)))
		w.Count("distinct_nontrivial", 1)
		w.Sample(map[string]string{"source": r.src})
		f(r.src, cmds)
	}
	genSyms(sigma, n, func(ss []sym) {
		if !w.Mine() || w.TimeUp() {
			return
		}
		one(ss, render(ss))
	})
	// the repetition family: one construct repeated or nested n = 1 … 16 (thorough 40) times
	printerFamily = "REP"
	maxRep := 16
	if w.thorough() {
		maxRep = 40
	}
	for n := 1; n <= maxRep; n++ {
		if !w.Mine() || w.TimeUp() {
			continue
		}
		for _, src := range repetitionSources(n) {
			w.Announce(src)
			cmds, _, err := parseAll(src)
			if err != nil || len(cmds) == 0 {
				continue
			}
			quiesce()
			w.Count("states", 1)
			w.Count("repetition_sources", 1)
			w.Count("distinct_nontrivial", 1)
			f(src, cmds)
		}
	}
	seen := map[string]bool{}
	derivations(w.thorough(), func(name string, texts []string) {
		if name == "D3" && !w.thorough() || name == "WG" && len(texts) > 3 {
			return // generated words: as argument, command name and redirection target only
		}
		printerFamily = name
		key := strings.Join(texts, "\x00")
		if seen[key] {
			return
		}
		seen[key] = true
		if !w.Mine() || w.TimeUp() {
			return
		}
		ss := syms(append(append([]string{}, texts...), "\n")...)
		one(ss, render(ss))
		if m := gramParse(ss); m.ok {
			ml := multiLine(ss, m)
			one(ml, render(ml))
		}
	})
}

var errWriter = errors.New("sentinel write error")

type failingWriter struct {
	n int // bytes accepted before failing
}

func (f *failingWriter) Write(p []byte) (int, error) {
	if len(p) <= f.n {
		f.n -= len(p)
		return len(p), nil
	}
	k := f.n
	f.n = 0
	return k, errWriter
}

// c18Judge: idempotence, determinism, purity, writer faults.
func c18Judge(w *W, src string, cmds []ast.Command, cfgs []*printer.Config, faults bool) {
	before := dumpAST(cmds, true)
	seen := map[string]bool{}
	for ci, cfg := range cfgs {
		if cfg == nil {
			continue
		}
		w.Count("evaluations", 1)
		out, err, pan := printAll(cfg, cmds)
		if pan != nil || err != nil {
			w.Violation("print-fails", printCase{src, ci}, fmt.Sprintf("Fprint of %q under %s: panic=%v err=%v", src, configName(ci), pan, err))
			return
		}
		// the (reflection based) deep comparison is done after the configs that select a different
		// code path (every one that changes Then/Do/Case/Redir/Assign = every 4th) and after the last
		every := 4
		if printerQuick {
			every = 32 // quick tier: after the first four configurations, then after every 32nd and after the last
		}
		if ci%every == 3 || ci == len(cfgs)-1 || printerFamily == "WG" && cfgs[ci+1] == nil {
			if after := dumpAST(cmds, true); after != before {
				w.Violation("tree-modified", printCase{src, ci}, fmt.Sprintf("Fprint under %s (or one of the configs since the previous comparison) modified the tree parsed from %q\n before %s\n after  %s", configName(ci), src, before, after))
				return
			}
		}
		out2, _, _ := printAll(cfg, cmds)
		if out2 != out {
			w.Violation("nondeterministic", printCase{src, ci}, fmt.Sprintf("printing the tree of %q twice under %s gives %q and then %q", src, configName(ci), out, out2))
			return
		}
		if seen[out] {
			continue
		}
		seen[out] = true
		w.Count("traces_validated_against_impl", 1)
		back, _, perr := parseAll(out)
		if perr != nil {
			// no fix-point without a re-parse (C05 judges this too, with the tree comparison)
			w.Violation(c18Class("printed-text-rejected", src, out), printCase{src, ci}, fmt.Sprintf("formatting is not a fix-point under %s: %q prints as %q, which cannot be re-parsed and printed again: %v", configName(ci), src, out, perr))
			return
		}
		again, _, _ := printAll(cfg, back)
		if again != out {
			w.Violation(c18Class("not-idempotent", src, out), printCase{src, ci}, fmt.Sprintf("formatting is not a fix-point under %s: %q prints as %q, whose re-parse prints as %q", configName(ci), src, out, again))
			return
		}
	}
	if !faults {
		return
	}
	for _, ci := range []int{0, 13, 255} {
		cfg := cfgs[ci]
		if cfg == nil {
			continue
		}
		for _, c := range cmds {
			var full bytes.Buffer
			cfg.Fprint(&full, c)
			for k := 0; k < full.Len(); k++ {
				w.Count("evaluations", 1)
				w.Count("writer_fault_positions", 1)
				fw := &failingWriter{n: k}
				var err error
				var pan interface{}
				func() {
					defer func() { pan = recover() }()
					err = cfg.Fprint(fw, c)
				}()
				if pan != nil {
					w.Violation("writer-fault-panic", printCase{src, ci}, fmt.Sprintf("Fprint of %q with a writer failing after %d bytes panicked: %v", src, k, pan))
					return
				}
				if err == nil {
					w.Violation("writer-fault-ignored", printCase{src, ci}, fmt.Sprintf("Fprint of %q (%d bytes of output) with a writer failing after %d bytes returned a nil error", src, full.Len(), k))
					return
				}
			}
			if after := dumpAST(cmds, true); after != before {
				w.Violation("tree-modified", printCase{src, ci}, fmt.Sprintf("a failed Fprint (writer failing after some k < %d bytes) left the tree of %q modified", full.Len(), src))
				return
			}
		}
	}
}

func c18Class(cl, src, out string) string { return cl }

func init() {
	register(&check{
		id:    "C05",
		level: "model_checking",
		rule: "every program the parser accepts among all strings ≤ 4 (quick) / 5 (thorough) over a 32-symbol alphabet and the derivation sets D0–D2 (thorough: D3) in one-line and multi-line layout, each printed under 128 (quick: all 64 combinations of the six structural options × {tab, 4 spaces}) / all 256 Config combinations; " +
			"identical outputs are parsed once; the re-parsed program must have the same semantic skeleton (`;`, newline and no separator coincide; here-document bodies byte for byte)",
		assume: []string{"the original parse is the oracle (metamorphic); semantic skeleton = and-or lists with async flag, pipelines, commands, words and parts, redirections, here-document body/delimiter text"},
		run: func(w *W) {
			cfgs := allConfigs()
			printerQuick = !w.thorough()
			printerPrograms(w, func(src string, cmds []ast.Command) { c05Judge(w, src, cmds, configsFor(cfgs)) })
		},
		replay: func(raw json.RawMessage) error {
			var c printCase
			if err := json.Unmarshal(raw, &c); err != nil {
				return err
			}
			cmds, _, err := parseAll(c.Src)
			if err != nil {
				return nil
			}
			out, perr, pan := printAll(mkConfig(c.Config), cmds)
			fmt.Printf("source %q\nprinted under %s: %q (err=%v panic=%v)\n", c.Src, configName(c.Config), out, perr, pan)
			back, _, e2 := parseAll(out)
			fmt.Printf("re-parse: err=%v\n got  %s\n want %s\n", e2, semDump(back), semDump(cmds))
			if pan != nil || perr != nil || e2 != nil || semDump(back) != semDump(cmds) {
				return fmt.Errorf("round trip fails")
			}
			return nil
		},
	})
	register(&check{
		id:    "C18",
		level: "model_checking",
		rule: "the programs of C05 × 128 (quick) / 256 Configs: print(parse(print(P))) == print(P), two prints of one tree are equal, a position-carrying dump of the tree (every field incl. Sep/SepPos) is identical before and after Fprint; " +
			"writer faults: for every program and 3 Configs a writer that fails after k bytes for every k < output length must make Fprint return a non-nil error without panic and leave the tree unchanged",
		assume: []string{"purity is judged on a reflection dump of every field of every node", "outputs that do not re-parse are C05's subject and skipped here"},
		run: func(w *W) {
			cfgs := allConfigs()
			printerQuick = !w.thorough()
			printerPrograms(w, func(src string, cmds []ast.Command) { c18Judge(w, src, cmds, configsFor(cfgs), true) })
			// outputs larger than bufio's 4096-byte buffer
			if w.Mine() {
				var b strings.Builder
				for i := 0; i < 700; i++ {
					b.WriteString("if a; then b; fi; ")
				}
				var b2 strings.Builder
				for i := 0; i < 700; i++ {
					b2.WriteString("if a; then b; fi\n")
				}
				for _, big := range []string{"{ " + b.String() + "}\n", "{\n" + b2.String() + "}\n", "{\n" + strings.Repeat("cat <<E\nxxxxxxxxxxxxxxxx\nE\n", 400) + "}\n"} {
					cmds, _, err := parseAll(big)
					if err == nil {
						for _, k := range []int{0, 1, 100, 4095, 4096, 4097, 5000, 8191, 8192, 8193, 10000} {
							fw := &failingWriter{n: k}
							var e error
							var pan interface{}
							func() {
								defer func() { pan = recover() }()
								e = printer.Fprint(fw, cmds[0])
							}()
							w.Count("evaluations", 1)
							if pan != nil || e == nil {
								w.Violation("writer-fault-ignored", printCase{big, 0}, fmt.Sprintf("large output (%d bytes of source, one-line / multi-line / here-documents), writer failing after %d bytes: err=%v panic=%v", len(big), k, e, pan))
							}
						}
					}
				}
			}
		},
		replay: func(raw json.RawMessage) error {
			var c printCase
			if err := json.Unmarshal(raw, &c); err != nil {
				return err
			}
			cmds, _, err := parseAll(c.Src)
			if err != nil {
				return nil
			}
			ww := &W{res: result{Counts: map[string]int64{}, ViolCount: map[string]int64{}}, sets: map[string]map[string]bool{}}
			c18Judge(ww, c.Src, cmds, allConfigs(), true)
			if len(ww.res.Viol) > 0 {
				return fmt.Errorf("%s", ww.res.Viol[0].Detail)
			}
			return nil
		},
	})
}
