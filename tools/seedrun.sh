#!/bin/bash
# usage: tools/seedrun.sh <seed-id> <check-id>…   applies /verif/seeded/<seed>/patch(.rebased).diff to /repo, runs the checks, undoes it
cd /verif
seed=$1; shift
p=seeded/$seed/patch.rebased.diff; [ -f $p ] || p=seeded/$seed/patch.diff
git -C /repo diff --quiet || { echo "/repo is dirty"; exit 2; }
git -C /repo apply --3way $PWD/$p >/dev/null 2>&1 || { echo "$seed: patch does not apply"; git -C /repo reset -q --hard HEAD; exit 2; }
for id in "$@"; do
  out=$(./check $id quick 2>&1); rc=$?
  echo "seed=$seed check=$id rc=$rc viol_lines=$(echo "$out" | grep -c '^VIOLATION') | $(echo "$out" | grep '^VIOLATION' | head -1 | cut -c1-260)"
done
git -C /repo reset -q --hard HEAD
