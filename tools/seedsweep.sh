#!/bin/bash
# usage: tools/seedsweep.sh [seed ids…]   runs each kept seed's own check (quick) against HEAD+patch in a scratch mirror
cd /verif
ids="$@"; [ -z "$ids" ] && ids=$(ls seeded | grep -v '^_')
for s in $ids; do
  p=seeded/$s/patch.rebased.diff; [ -f $p ] || p=seeded/$s/patch.diff
  id=${s:0:3}
  extra=$(python3 -c "import json;print(' '.join(json.load(open('seeded/$s/meta.json')).get('also_run',[])))" 2>/dev/null)
  echo "== $s: $(tools/seedalt.sh $p HEAD $id $extra 2>&1 | grep -E '^C[0-9]+ rc|PATCH|BUILD' | cut -c1-60 | tr '\n' ' ')"
done
