package main

// C11 — arithmetic evaluation follows C on int64.
//
// Space: expression trees (all of depth ≤ 1, one-hole depth 2, see c11Run)
// over every operator × operand set × environments, each rendered minimally
// parenthesised / fully parenthesised, with / without blanks.  Oracle: a tree
// walking evaluator (c11Eval) with C's short-circuit rules; expressions C
// leaves undefined are detected (c11UB) and excluded.

import (
	"encoding/json"
	"fmt"
	"math"
	"sort"
	"strconv"
	"strings"

	"github.com/hattya/go.sh/interp"
)

type axNode struct {
	K    string    `json:"k"` // num var un pre post bin land lor cond asg
	Op   string    `json:"op,omitempty"`
	Text string    `json:"text,omitempty"` // num: literal text; var: name
	Kids []*axNode `json:"kids,omitempty"`
}

func axNum(t string) *axNode { return &axNode{K: "num", Text: t} }
func axVar(n string) *axNode { return &axNode{K: "var", Text: n} }

var axPrec = map[string]int{
	"*": 13, "/": 13, "%": 13, "+": 12, "-": 12, "<<": 11, ">>": 11,
	"<": 10, ">": 10, "<=": 10, ">=": 10, "==": 9, "!=": 9, "&": 8, "^": 7, "|": 6,
}

func (n *axNode) prec() int {
	switch n.K {
	case "num", "var":
		return 16
	case "post":
		return 15
	case "un", "pre":
		return 14
	case "bin":
		return axPrec[n.Op]
	case "land":
		return 5
	case "lor":
		return 4
	case "cond":
		return 3
	}
	return 2 // asg
}

// render: full = parenthesise every operand; tight = no blanks.
func (n *axNode) render(full, tight bool) string {
	sp := " "
	if tight {
		sp = ""
	}
	sub := func(k *axNode, need bool) string {
		s := k.render(full, tight)
		leaf := k.K == "num" || k.K == "var"
		if k.K == "num" && strings.HasPrefix(k.Text, "(") {
			leaf = false
			need = false // already parenthesised
		}
		if need || full && !leaf && !(k.K == "num") {
			return "(" + s + ")"
		}
		return s
	}
	unaryish := func(k *axNode) bool { return k.K == "un" || k.K == "pre" || k.K == "post" }
	switch n.K {
	case "num", "var":
		return n.Text
	case "un":
		k := n.Kids[0]
		return n.Op + sub(k, k.prec() < 14 || unaryish(k))
	case "pre":
		k := n.Kids[0]
		return n.Op + sub(k, k.prec() < 14 || unaryish(k))
	case "post":
		k := n.Kids[0]
		return sub(k, k.prec() < 15 || unaryish(k)) + n.Op
	case "bin", "land", "lor":
		op := n.Op
		p := n.prec()
		l, r := n.Kids[0], n.Kids[1]
		return sub(l, l.prec() < p || tight && unaryish(l)) + sp + op + sp + sub(r, r.prec() <= p || tight && unaryish(r))
	case "cond":
		c, a, b := n.Kids[0], n.Kids[1], n.Kids[2]
		return sub(c, c.prec() <= 3 || tight && unaryish(c)) + sp + "?" + sp + sub(a, tight && unaryish(a)) + sp + ":" + sp + sub(b, b.prec() < 3 || tight && unaryish(b))
	case "asg":
		l, r := n.Kids[0], n.Kids[1]
		return sub(l, l.prec() < 14) + sp + n.Op + sp + sub(r, tight && unaryish(r))
	}
	return "?"
}

// unary minus followed by a negative literal etc. needs a blank or parens
func axSpacedUnary(s string) string { return s }

// ---- reference evaluator

type axFault struct{ msg string }

type axEnv map[string]string // absent = unset

func (e axEnv) clone() axEnv {
	c := axEnv{}
	for k, v := range e {
		c[k] = v
	}
	return c
}

func axParseConst(s string) (int64, bool) {
	// decimal, octal (leading 0), hexadecimal (0x / 0X)
	if s == "" {
		return 0, false
	}
	neg := false
	t := s
	if t[0] == '-' || t[0] == '+' {
		neg = t[0] == '-'
		t = t[1:]
	}
	base := 10
	switch {
	case len(t) > 2 && (t[:2] == "0x" || t[:2] == "0X"):
		base, t = 16, t[2:]
	case len(t) > 1 && t[0] == '0':
		base, t = 8, t[1:]
	}
	if t == "" {
		return 0, false
	}
	u, err := strconv.ParseUint(t, base, 64)
	if err != nil {
		return 0, false
	}
	if neg {
		if u > 1<<63 {
			return 0, false
		}
		return -int64(u), true
	}
	if u > math.MaxInt64 {
		return 0, false
	}
	return int64(u), true
}

type axMachine struct {
	env   axEnv
	eager bool // defect model: operands C would skip are evaluated too
	ub    bool // an operation C leaves undefined was executed
	order uint // bit i set: the i-th unsequenced operator evaluates its right operand first
	nth   uint
}

// rightFirst consumes one bit of the evaluation-order choice: C leaves the
// order in which the operands of an unsequenced operator are evaluated open.
func (m *axMachine) rightFirst() bool {
	b := m.order>>m.nth&1 == 1
	m.nth++
	return b
}

func (m *axMachine) bin(op string, l, r int64) int64 {
	if (op == "<<" || op == ">>") && r >= 64 || (op == "/" || op == "%") && l == math.MinInt64 && r == -1 {
		m.ub = true
	}
	return axBin(op, l, r)
}

func (m *axMachine) readVar(name string) int64 {
	v, ok := m.env[name]
	if !ok || v == "" {
		return 0
	}
	n, ok := axParseConst(v)
	if !ok {
		panic(axFault{"invalid number " + v})
	}
	return n
}

func axBin(op string, l, r int64) int64 {
	switch op {
	case "*":
		return l * r
	case "/":
		if r == 0 {
			panic(axFault{"division by zero"})
		}
		return l / r
	case "%":
		if r == 0 {
			panic(axFault{"division by zero"})
		}
		return l % r
	case "+":
		return l + r
	case "-":
		return l - r
	case "<<":
		if r < 0 {
			panic(axFault{"negative shift"})
		}
		return l << uint64(r)
	case ">>":
		if r < 0 {
			panic(axFault{"negative shift"})
		}
		return l >> uint64(r)
	case "&":
		return l & r
	case "^":
		return l ^ r
	case "|":
		return l | r
	case "<":
		return b2i(l < r)
	case ">":
		return b2i(l > r)
	case "<=":
		return b2i(l <= r)
	case ">=":
		return b2i(l >= r)
	case "==":
		return b2i(l == r)
	case "!=":
		return b2i(l != r)
	}
	panic("bad op " + op)
}

func b2i(b bool) int64 {
	if b {
		return 1
	}
	return 0
}

func (m *axMachine) lvalue(n *axNode, op string) string {
	for n.K == "num" && false {
	}
	if n.K != "var" {
		panic(axFault{"'" + op + "' requires lvalue"})
	}
	return n.Text
}

func (m *axMachine) eval(n *axNode) int64 {
	switch n.K {
	case "num":
		t := n.Text
		if strings.HasPrefix(t, "(") { // (-9223372036854775807-1)
			return math.MinInt64
		}
		v, ok := axParseConst(t)
		if !ok {
			panic(axFault{"invalid number " + t})
		}
		return v
	case "var":
		return m.readVar(n.Text)
	case "un":
		v := m.eval(n.Kids[0])
		switch n.Op {
		case "+":
			return v
		case "-":
			return -v
		case "~":
			return ^v
		default:
			return b2i(v == 0)
		}
	case "pre", "post":
		k := n.Kids[0]
		if k.K != "var" {
			// the operand is evaluated first (its own faults come first)
			m.eval(k)
			panic(axFault{"'" + n.Op + "' requires lvalue"})
		}
		v := m.readVar(k.Text)
		nv := v + 1
		if n.Op == "--" {
			nv = v - 1
		}
		m.env[k.Text] = strconv.FormatInt(nv, 10)
		if n.K == "pre" {
			return nv
		}
		return v
	case "bin":
		var l, r int64
		if m.rightFirst() {
			r = m.eval(n.Kids[1])
			l = m.eval(n.Kids[0])
		} else {
			l = m.eval(n.Kids[0])
			r = m.eval(n.Kids[1])
		}
		return m.bin(n.Op, l, r)
	case "land", "lor", "cond":
		if m.eager {
			return m.evalEager(n)
		}
		switch n.K {
		case "land":
			if m.eval(n.Kids[0]) == 0 {
				return 0
			}
			return b2i(m.eval(n.Kids[1]) != 0)
		case "lor":
			if m.eval(n.Kids[0]) != 0 {
				return 1
			}
			return b2i(m.eval(n.Kids[1]) != 0)
		}
		if m.eval(n.Kids[0]) != 0 {
			return m.eval(n.Kids[1])
		}
		return m.eval(n.Kids[2])
	case "asg":
		l := n.Kids[0]
		if l.K != "var" {
			m.eval(l)
			if m.eager {
				m.eval(n.Kids[1])
			}
			panic(axFault{"'" + n.Op + "' requires lvalue"})
		}
		var v int64
		if n.Op == "=" {
			v = m.eval(n.Kids[1])
		} else {
			var cur, r int64
			if m.rightFirst() {
				r = m.eval(n.Kids[1])
				cur = m.readVar(l.Text)
			} else {
				cur = m.readVar(l.Text)
				r = m.eval(n.Kids[1])
			}
			v = m.bin(n.Op[:len(n.Op)-1], cur, r)
		}
		m.env[l.Text] = strconv.FormatInt(v, 10)
		return v
	}
	panic("bad node")
}

// evalEager is the defect model of go.sh's syntax-directed evaluator for the
// sequenced operators: every operand is reduced (and its side effects and
// faults happen) before the operator's own action runs, and an operand that
// is a bare variable is only read by that action, i.e. after all operands.
func (m *axMachine) evalEager(n *axNode) int64 {
	vals := make([]int64, len(n.Kids))
	for i, k := range n.Kids {
		if k.K != "var" {
			vals[i] = m.eval(k)
		}
	}
	get := func(i int) int64 {
		if n.Kids[i].K == "var" {
			return m.readVar(n.Kids[i].Text)
		}
		return vals[i]
	}
	switch n.K {
	case "land":
		if get(0) == 0 {
			return 0
		}
		return b2i(get(1) != 0)
	case "lor":
		if get(0) != 0 {
			return 1
		}
		return b2i(get(1) != 0)
	}
	if get(0) != 0 {
		return get(1)
	}
	return get(2)
}

// run evaluates under the model; fault != "" when C/the property prescribe an error.
func axRun(n *axNode, env axEnv, eager bool, order uint) (val int64, fault string, out axEnv) {
	m := &axMachine{env: env.clone(), eager: eager, order: order}
	defer func() {
		if e := recover(); e != nil {
			if f, ok := e.(axFault); ok {
				fault = f.msg
				out = m.env
				return
			}
			panic(e)
		}
	}()
	val = m.eval(n)
	return val, "", m.env
}

// axSomeOrder reports whether some legal operand evaluation order of the
// unsequenced operators faults with exactly the given variable store.
func axSomeOrder(n *axNode, env axEnv, got string) bool {
	k := axUnsequenced(n)
	if k > 6 {
		k = 6
	}
	for o := uint(1); o < 1<<uint(k); o++ {
		if _, f, e := axRun(n, env, false, o); f != "" && envString(e) == got {
			return true
		}
	}
	return false
}

func axUnsequenced(n *axNode) int {
	c := 0
	if n.K == "bin" || n.K == "asg" && n.Op != "=" {
		c = 1
	}
	for _, k := range n.Kids {
		c += axUnsequenced(k)
	}
	return c
}

// ---- undefined-behaviour detector (cases excluded from the space)

type axRW struct{ read, mod map[string]bool }

func axUnion(a, b map[string]bool) map[string]bool {
	m := map[string]bool{}
	for k := range a {
		m[k] = true
	}
	for k := range b {
		m[k] = true
	}
	return m
}

func axMeets(a, b map[string]bool) bool {
	for k := range a {
		if b[k] {
			return true
		}
	}
	return false
}

// axUB reports whether C leaves the expression undefined because a variable
// is modified and otherwise accessed without an intervening sequence point.
func axUB(n *axNode) (rw axRW, ub bool) {
	switch n.K {
	case "num":
		return axRW{}, false
	case "var":
		return axRW{read: map[string]bool{n.Text: true}}, false
	case "un":
		return axUB(n.Kids[0])
	case "pre", "post":
		k := n.Kids[0]
		rw, ub = axUB(k)
		if k.K == "var" {
			rw.mod = axUnion(rw.mod, map[string]bool{k.Text: true})
		}
		return rw, ub
	case "bin":
		a, u1 := axUB(n.Kids[0])
		b, u2 := axUB(n.Kids[1])
		ub = u1 || u2 || axMeets(a.mod, axUnion(b.read, b.mod)) || axMeets(b.mod, a.read)
		return axRW{axUnion(a.read, b.read), axUnion(a.mod, b.mod)}, ub
	case "land", "lor":
		a, u1 := axUB(n.Kids[0])
		b, u2 := axUB(n.Kids[1])
		return axRW{axUnion(a.read, b.read), axUnion(a.mod, b.mod)}, u1 || u2
	case "cond":
		c, u0 := axUB(n.Kids[0])
		a, u1 := axUB(n.Kids[1])
		b, u2 := axUB(n.Kids[2])
		return axRW{axUnion(c.read, axUnion(a.read, b.read)), axUnion(c.mod, axUnion(a.mod, b.mod))}, u0 || u1 || u2
	case "asg":
		l := n.Kids[0]
		b, u2 := axUB(n.Kids[1])
		if l.K != "var" {
			a, u1 := axUB(l)
			return axRW{axUnion(a.read, b.read), axUnion(a.mod, b.mod)}, u1 || u2 || axMeets(a.mod, axUnion(b.read, b.mod)) || axMeets(b.mod, a.read)
		}
		ub = u2 || b.mod[l.Text]
		rd := b.read
		if n.Op != "=" {
			rd = axUnion(rd, map[string]bool{l.Text: true})
		}
		return axRW{rd, axUnion(b.mod, map[string]bool{l.Text: true})}, ub
	}
	return axRW{}, false
}

// axExcluded: shift counts ≥ 64 and MinInt64 / -1 are undefined in C.
func axExcluded(n *axNode, env axEnv) bool {
	m := &axMachine{env: env.clone()}
	func() {
		defer func() { recover() }()
		m.eval(n)
	}()
	return m.ub
}

// ---- the check

type c11Case struct {
	Expr string            `json:"expr"`
	Env  map[string]string `json:"env"`
	Tree *axNode           `json:"tree"`
}

func envString(e axEnv) string {
	var ks []string
	for k := range e {
		ks = append(ks, k)
	}
	sort.Strings(ks)
	var b strings.Builder
	for _, k := range ks {
		fmt.Fprintf(&b, "%s=%q ", k, e[k])
	}
	return b.String()
}

// c11Judge runs one rendered expression and compares with the model.
func c11Judge(tree *axNode, src string, env axEnv) (class, detail string, nontrivial bool) {
	wantV, wantF, wantEnv := axRun(tree, env, false, 0)
	e := interp.NewExecEnv("sh")
	for k, v := range env {
		e.Set(k, v)
	}
	for _, k := range []string{"x", "y"} {
		if _, ok := env[k]; !ok {
			e.Unset(k)
		}
	}
	var got int
	var err error
	var pan interface{}
	func() {
		defer func() { pan = recover() }()
		got, err = e.Eval(src)
	}()
	gotEnv := axEnv{}
	for _, k := range []string{"x", "y"} {
		if v, ok := e.Get(k); ok {
			gotEnv[k] = v.Value
		}
	}
	nontrivial = wantF != "" || envString(wantEnv) != envString(env)
	mismatch := ""
	switch {
	case pan != nil:
		mismatch = fmt.Sprintf("Eval panicked: %v", pan)
	case wantF != "":
		if err == nil {
			mismatch = fmt.Sprintf("Eval = %d, nil; the model faults: %s", got, wantF)
		} else if _, ok := err.(interp.ArithExprError); !ok {
			mismatch = fmt.Sprintf("error %T is not an ArithExprError", err)
		} else if envString(gotEnv) != envString(wantEnv) && !axSomeOrder(tree, env, envString(gotEnv)) {
			mismatch = fmt.Sprintf("fault %q reported (%v) but the variables afterwards are {%s}, the model has {%s} at the fault", wantF, err, envString(gotEnv), envString(wantEnv))
		}
	case err != nil:
		mismatch = fmt.Sprintf("Eval fails with %v; the model gives %d", err, wantV)
	case int64(got) != wantV:
		mismatch = fmt.Sprintf("Eval = %d; the model gives %d", got, wantV)
	case envString(gotEnv) != envString(wantEnv):
		mismatch = fmt.Sprintf("value %d is right but the variables afterwards are {%s}, the model has {%s}", got, envString(gotEnv), envString(wantEnv))
	}
	if mismatch == "" {
		return "", "", nontrivial
	}
	detail = fmt.Sprintf("Eval(%q) with {%s}: %s", src, envString(env), mismatch)
	// attribution: does the eager-evaluation defect model predict exactly this?
	eV, eF, eEnv := axRun(tree, env, true, 0)
	if pan == nil {
		same := false
		if eF != "" {
			_, isAE := err.(interp.ArithExprError)
			same = err != nil && isAE && envString(gotEnv) == envString(eEnv)
		} else {
			same = err == nil && int64(got) == eV && envString(gotEnv) == envString(eEnv)
		}
		if same {
			return "eager-skipped-operand", detail, true
		}
	}
	return "", detail, true
}

var (
	c11Unary  = []string{"+", "-", "~", "!"}
	c11Binary = []string{"*", "/", "%", "+", "-", "<<", ">>", "<", ">", "<=", ">=", "==", "!=", "&", "^", "|"}
	c11Assign = []string{"=", "*=", "/=", "%=", "+=", "-=", "<<=", ">>=", "&=", "^=", "|="}
)

// depth-1 trees over the given leaves
func c11Depth1(leaves []*axNode, f func(*axNode)) {
	for _, a := range leaves {
		for _, op := range c11Unary {
			f(&axNode{K: "un", Op: op, Kids: []*axNode{a}})
		}
		for _, op := range []string{"++", "--"} {
			f(&axNode{K: "pre", Op: op, Kids: []*axNode{a}})
			f(&axNode{K: "post", Op: op, Kids: []*axNode{a}})
		}
		for _, b := range leaves {
			for _, op := range c11Binary {
				f(&axNode{K: "bin", Op: op, Kids: []*axNode{a, b}})
			}
			f(&axNode{K: "land", Op: "&&", Kids: []*axNode{a, b}})
			f(&axNode{K: "lor", Op: "||", Kids: []*axNode{a, b}})
			for _, op := range c11Assign {
				f(&axNode{K: "asg", Op: op, Kids: []*axNode{a, b}})
			}
			for _, c := range leaves {
				f(&axNode{K: "cond", Op: "?:", Kids: []*axNode{a, b, c}})
			}
		}
	}
}

// contexts with one hole at depth 1: op(hole, leaf), op(leaf, hole), …
func c11Contexts(leaves []*axNode, hole *axNode, f func(*axNode)) {
	for _, op := range c11Unary {
		f(&axNode{K: "un", Op: op, Kids: []*axNode{hole}})
	}
	for _, op := range []string{"++", "--"} {
		f(&axNode{K: "pre", Op: op, Kids: []*axNode{hole}})
		f(&axNode{K: "post", Op: op, Kids: []*axNode{hole}})
	}
	for _, b := range leaves {
		for _, op := range []string{"=", "+=", "<<="} {
			f(&axNode{K: "asg", Op: op, Kids: []*axNode{hole, b}})
		}
		for _, op := range c11Binary {
			f(&axNode{K: "bin", Op: op, Kids: []*axNode{hole, b}})
			f(&axNode{K: "bin", Op: op, Kids: []*axNode{b, hole}})
		}
		f(&axNode{K: "land", Op: "&&", Kids: []*axNode{hole, b}})
		f(&axNode{K: "land", Op: "&&", Kids: []*axNode{b, hole}})
		f(&axNode{K: "lor", Op: "||", Kids: []*axNode{hole, b}})
		f(&axNode{K: "lor", Op: "||", Kids: []*axNode{b, hole}})
		for _, op := range c11Assign {
			if b.K == "var" {
				f(&axNode{K: "asg", Op: op, Kids: []*axNode{b, hole}})
			}
		}
		for _, c := range leaves {
			f(&axNode{K: "cond", Op: "?:", Kids: []*axNode{hole, b, c}})
			f(&axNode{K: "cond", Op: "?:", Kids: []*axNode{b, hole, c}})
			f(&axNode{K: "cond", Op: "?:", Kids: []*axNode{b, c, hole}})
		}
	}
}

func c11Envs(vals []string) []axEnv {
	var out []axEnv
	opt := append([]string{"\x00unset"}, vals...)
	for _, x := range opt {
		for _, y := range opt {
			e := axEnv{}
			if x != "\x00unset" {
				e["x"] = x
			}
			if y != "\x00unset" {
				e["y"] = y
			}
			out = append(out, e)
		}
	}
	return out
}

func c11Explore(w *W, tree *axNode, envs []axEnv, layouts int) {
	if _, ub := axUB(tree); ub {
		w.Count("excluded_undefined_in_C", 1)
		return
	}
	w.Count("states", 1)
	type lay struct{ full, tight bool }
	lays := []lay{{false, false}, {true, true}, {false, true}, {true, false}}[:layouts]
	srcs := make([]string, 0, 4)
	for _, l := range lays {
		s := tree.render(l.full, l.tight)
		dup := false
		for _, t := range srcs {
			if t == s {
				dup = true
			}
		}
		if !dup {
			srcs = append(srcs, s)
		}
	}
	for _, env := range envs {
		if axExcluded(tree, env) {
			w.Count("excluded_undefined_in_C", 1)
			continue
		}
		for _, src := range srcs {
			w.Count("evaluations", 1)
			w.Count("transitions", 1)
			w.Count("traces_validated_against_impl", 1)
			cl, d, nt := c11Judge(tree, src, env)
			if nt {
				w.Count("distinct_nontrivial", 1)
				w.Sample(map[string]interface{}{"expr": src, "env": envString(env)})
			}
			if d != "" {
				w.Violation(cl, c11Case{Expr: src, Env: env, Tree: tree}, d)
			}
		}
	}
}

func c11Run(w *W) {
	const MAX, MIN = "9223372036854775807", "(-9223372036854775807-1)"
	full := []*axNode{axNum("0"), axNum("1"), axNum("2"), axNum("3"), axNum("7"), {K: "un", Op: "-", Kids: []*axNode{axNum("1")}},
		axNum(MAX), axNum(MIN), axNum("010"), axNum("0x1F"), axNum("63"), axNum("64"), axVar("x"), axVar("y"), axNum("08"), axNum("0x")}
	envFull := c11Envs([]string{"", "5", "010", "0x1F", "abc", "-9223372036854775808", "-1"})
	red := []*axNode{axNum("0"), axNum("1"), axNum("7"), {K: "un", Op: "-", Kids: []*axNode{axNum("1")}}, axNum(MAX), axNum(MIN), axVar("x"), axVar("y")}
	envRed := c11Envs([]string{"5", "abc"})
	ctxLeaves := []*axNode{axNum("0"), axNum("2"), axVar("x"), axVar("y")}
	if w.thorough() {
		envRed = c11Envs([]string{"", "5", "010", "abc", "-1"})
		ctxLeaves = []*axNode{axNum("0"), axNum("1"), axNum("7"), axNum(MIN), axVar("x"), axVar("y")}
	}
	// depth 0
	for _, l := range full {
		if w.Mine() {
			c11Explore(w, l, envFull, 4)
		}
	}
	// depth 1, complete
	c11Depth1(full, func(t *axNode) {
		if w.Mine() {
			w.Announce(t.render(false, false))
			c11Explore(w, t, envFull, 4)
		}
	})
	// depth 2, one hole: every depth-1 tree over the reduced leaves in every depth-1 context
	c11Depth1(red, func(h *axNode) {
		if !w.Mine() || w.TimeUp() {
			return
		}
		w.Announce("hole " + h.render(false, false))
		c11Contexts(ctxLeaves, h, func(t *axNode) {
			c11Explore(w, t, envRed, 2)
		})
	})
	// skipped operand × sibling side effect (a slice of depth 3): every depth-1 tree, faulty ones included, as
	// the operand C skips in 0&&h, 1||h, 1?0:h, 0?h:1, combined with an assignment or increment that IS evaluated.
	// The skipped operand must leave no trace: no fault, no store, and no effect on the sibling's store.
	skipLeaves := append(append([]*axNode{}, red...), axNum("08"))
	sibs := []*axNode{
		{K: "asg", Op: "=", Kids: []*axNode{axVar("x"), axNum("2")}},
		{K: "pre", Op: "++", Kids: []*axNode{axVar("x")}},
		{K: "post", Op: "--", Kids: []*axNode{axVar("x")}},
		{K: "asg", Op: "+=", Kids: []*axNode{axVar("y"), axNum("3")}},
	}
	c11Depth1(skipLeaves, func(h *axNode) {
		if !w.Mine() || w.TimeUp() {
			return
		}
		w.Announce("skipped " + h.render(false, false))
		skips := []*axNode{
			{K: "land", Op: "&&", Kids: []*axNode{axNum("0"), h}},
			{K: "lor", Op: "||", Kids: []*axNode{axNum("1"), h}},
			{K: "cond", Op: "?:", Kids: []*axNode{axNum("1"), axNum("0"), h}},
			{K: "cond", Op: "?:", Kids: []*axNode{axNum("0"), h, axNum("1")}},
		}
		for _, sk := range skips {
			for _, sb := range sibs {
				for _, t := range []*axNode{
					{K: "bin", Op: "+", Kids: []*axNode{sk, sb}},
					{K: "bin", Op: "*", Kids: []*axNode{sb, sk}},
					{K: "land", Op: "&&", Kids: []*axNode{sk, sb}},
					{K: "lor", Op: "||", Kids: []*axNode{sk, sb}},
					{K: "cond", Op: "?:", Kids: []*axNode{sk, sb, sb}},
					{K: "asg", Op: "=", Kids: []*axNode{axVar("y"), {K: "bin", Op: "-", Kids: []*axNode{sk, sb}}}},
				} {
					w.Count("skipped_operand_with_sibling", 1)
					c11Explore(w, t, envRed, 1)
				}
			}
		}
	})
	// chains and long operands: one operator repeated n = 1 … 24 times (left- and right-associative chains, unary and
	// parenthesis nesting, conditional chains), constants of 1 … 24 digits (decimal, octal, hexadecimal)
	chainEnvs := c11Envs([]string{"5"})
	for n := 1; n <= 24; n++ {
		if !w.Mine() || w.TimeUp() {
			continue
		}
		w.Announce(fmt.Sprintf("chains of length %d", n))
		var trees []*axNode
		for _, op := range []string{"+", "-", "*", "<<", "|", "&&", "==", "<", "%"} {
			for _, leaf := range []*axNode{axNum("1"), axNum("2"), axVar("x"), axNum("3")} {
				t := leaf
				for i := 0; i < n; i++ {
					k := "bin"
					switch op {
					case "&&":
						k = "land"
					}
					t = &axNode{K: k, Op: op, Kids: []*axNode{t, leaf}}
				}
				trees = append(trees, t)
				// the same chain nested to the right
				r := leaf
				for i := 0; i < n; i++ {
					k := "bin"
					if op == "&&" {
						k = "land"
					}
					r = &axNode{K: k, Op: op, Kids: []*axNode{leaf, r}}
				}
				trees = append(trees, r)
			}
		}
		for _, op := range c11Unary {
			t := axVar("x")
			for i := 0; i < n; i++ {
				t = &axNode{K: "un", Op: op, Kids: []*axNode{t}}
			}
			trees = append(trees, t)
		}
		// x = y = x = … = 7 and x += y += …
		for _, op := range []string{"=", "+=", "<<="} {
			t := axNum("7")
			for i := 0; i < n; i++ {
				v := "x"
				if i%2 == 1 {
					v = "y"
				}
				t = &axNode{K: "asg", Op: op, Kids: []*axNode{axVar(v), t}}
			}
			trees = append(trees, t)
		}
		// 0 ? 1 : 0 ? 1 : … : 2   and   1 ? 1 ? … : 0 : 0
		t := axNum("2")
		for i := 0; i < n; i++ {
			t = &axNode{K: "cond", Op: "?:", Kids: []*axNode{axNum("0"), axNum("1"), t}}
		}
		trees = append(trees, t)
		t = axNum("2")
		for i := 0; i < n; i++ {
			t = &axNode{K: "cond", Op: "?:", Kids: []*axNode{axNum("1"), t, axNum("0")}}
		}
		trees = append(trees, t)
		// constants with n digits
		for _, pre := range []string{"", "0", "0x", "00"} {
			for _, d := range []string{"1", "7", "9", "f"} {
				if d == "f" && pre != "0x" {
					continue
				}
				trees = append(trees, axNum(pre+strings.Repeat(d, n)))
			}
		}
		for _, tr := range trees {
			w.Count("chains_and_long_operands", 1)
			c11Explore(w, tr, chainEnvs, 2)
		}
	}
	if w.thorough() {
		// depth 2, complete, over a small leaf set (binary/logical/assign roots)
		small := []*axNode{axNum("0"), axNum("1"), axNum("7"), axVar("x")}
		var d1 []*axNode
		c11Depth1(small, func(t *axNode) { d1 = append(d1, t) })
		envS := c11Envs([]string{"5"})
		for _, a := range d1 {
			if !w.Mine() || w.TimeUp() {
				continue
			}
			w.Announce("left " + a.render(false, false))
			for _, b := range d1 {
				for _, op := range c11Binary {
					c11Explore(w, &axNode{K: "bin", Op: op, Kids: []*axNode{a, b}}, envS, 1)
				}
				c11Explore(w, &axNode{K: "land", Op: "&&", Kids: []*axNode{a, b}}, envS, 1)
				c11Explore(w, &axNode{K: "lor", Op: "||", Kids: []*axNode{a, b}}, envS, 1)
			}
		}
	}
}

func init() {
	register(&check{
		id:    "C11",
		level: "model_checking",
		rule: "every expression tree of depth ≤ 1 over all operators and the 16 operands × 64 environments (x,y ∈ {unset,'',5,010,0x1F,abc,MinInt64,-1}) in 4 layouts; " +
			"every depth-1 tree over 8 operands placed in every depth-1 context (one-hole depth 2); every depth-1 tree over 9 operands (faulty ones included) as the operand C skips in 0&&h, 1||h, 1?0:h, 0?h:1 × 4 evaluated assignments/increments × 6 combining contexts (a slice of depth 3); chains of one operator repeated n = 1…24 times (both associativities, unary and conditional chains, assignment chains) and constants of 1…24 digits; thorough adds the complete depth-2 product for binary/logical roots over 4 operands. " +
			"Trees C leaves undefined (unsequenced modify/access, shift ≥ 64, MinInt64/-1) are detected and excluded. Non-trivial = the model faults or changes a variable",
		assume: []string{"reference evaluator c11.go (tree walking, int64 wrap-around) is trusted; cross-checked against bash $(( )) at design time",
			"which of several errors is reported is not compared (C06 covers schedule dependence); only 'an ArithExprError' and the variable store at the fault"},
		run: c11Run,
		replay: func(raw json.RawMessage) error {
			var c c11Case
			if err := json.Unmarshal(raw, &c); err != nil {
				return err
			}
			cl, d, _ := c11Judge(c.Tree, c.Expr, axEnv(c.Env))
			if d != "" {
				return fmt.Errorf("[%s] %s", cl, d)
			}
			return nil
		},
	})
}
