package main

// C14 — field splitting.
//
// Space: all words of ≤ N segments over {ordinary, IFS white space, IFS
// non-white-space, non-IFS white space, quoted ordinary, quoted IFS white
// space, quoted IFS non-white-space, empty quotes} × 7 IFS settings × 2
// realisations (literal parts / parameter expansions).  Words are built as AST
// nodes.  Oracle: a splitter written from the statement.

import (
	"encoding/json"
	"fmt"
	"reflect"
	"strings"
	"unicode"

	"github.com/hattya/go.sh/ast"
	"github.com/hattya/go.sh/interp"
)

type c14Seg struct {
	Text   string `json:"text"`
	Quoted bool   `json:"quoted"`
}

type c14Case struct {
	IFS    string   `json:"ifs"`
	IFSSet bool     `json:"ifs_set"`
	Real   int      `json:"realisation"`
	Segs   []c14Seg `json:"segs"`
}

// c14Ref: cut the unquoted text at every IFS character; quoted text is never
// cut; a quoted part (even empty) makes its field count; empty fields holding
// nothing quoted are dropped.  Because such empty fields are dropped, "runs of
// IFS white space collapse" and "a non-white-space IFS character absorbs
// adjacent IFS white space" need no separate treatment.
func c14Ref(segs []c14Seg, ifs string, set bool) []string {
	if !set {
		ifs = " \t\n"
	}
	type fld struct {
		b strings.Builder
		q bool
	}
	var out []string
	cur := &fld{}
	flush := func() {
		if cur.b.Len() > 0 || cur.q {
			out = append(out, cur.b.String())
		}
		cur = &fld{}
	}
	for _, s := range segs {
		if s.Quoted {
			cur.q = true
			cur.b.WriteString(s.Text)
			continue
		}
		for _, r := range s.Text {
			if strings.ContainsRune(ifs, r) {
				flush()
			} else {
				cur.b.WriteRune(r)
			}
		}
	}
	flush()
	return out
}

func c14Build(c c14Case) (*interp.ExecEnv, ast.Word) {
	env := interp.NewExecEnv("sh")
	env.Opts = interp.NoGlob
	if c.IFSSet {
		env.Set("IFS", c.IFS)
	} else {
		env.Unset("IFS")
	}
	var w ast.Word
	for k, s := range c.Segs {
		var inner ast.WordPart = &ast.Lit{Value: s.Text}
		if c.Real == 1 {
			name := fmt.Sprintf("v%d", k)
			env.Set(name, s.Text)
			inner = &ast.ParamExp{Name: &ast.Lit{Value: name}}
		}
		switch {
		case !s.Quoted:
			w = append(w, inner)
		case s.Text == "" && c.Real == 0:
			w = append(w, &ast.Quote{Tok: `"`, Value: ast.Word{}})
		case c.Real == 2:
			w = append(w, &ast.Quote{Tok: `'`, Value: ast.Word{&ast.Lit{Value: s.Text}}})
		default:
			w = append(w, &ast.Quote{Tok: `"`, Value: ast.Word{inner}})
		}
	}
	return env, w
}

func c14Judge(c c14Case) (string, bool) {
	env, w := c14Build(c)
	var got []string
	var err error
	var pan interface{}
	func() {
		defer func() { pan = recover() }()
		got, err = env.Expand(w, 0)
	}()
	want := c14Ref(c.Segs, c.IFS, c.IFSSet)
	nt := len(want) > 1
	if pan != nil {
		return fmt.Sprintf("Expand panicked: %v", pan), true
	}
	if err != nil {
		return fmt.Sprintf("Expand failed: %v", err), true
	}
	if len(got) == 0 && len(want) == 0 {
		return "", nt
	}
	if !reflect.DeepEqual(got, want) {
		return fmt.Sprintf("IFS=%q(set=%v) segments=%+v realisation=%d: Expand gives %q, the rule gives %q", c.IFS, c.IFSSet, c.Segs, c.Real, got, want), true
	}
	return "", nt
}

func init() {
	register(&check{
		id:    "C14",
		level: "model_checking",
		rule: "every word of ≤ N segments (N=6 quick, 7 thorough) over the 8 segment kinds × IFS ∈ {unset, default, ' ,', ',', ':', '', 'é,'} × realisations {literal parts, $var parts, single-quoted}; " +
			"non-trivial = the rule yields ≥ 2 fields (the word really is cut)",
		assume: []string{"reference splitter written from the property statement (c14Ref)", "NoGlob set so that pathname expansion does not interfere; words are AST values (white space cannot be written literally)"},
		run:    c14Run,
		replay: func(raw json.RawMessage) error {
			var c c14Case
			if err := json.Unmarshal(raw, &c); err != nil {
				return err
			}
			if d, _ := c14Judge(c); d != "" {
				return fmt.Errorf("%s", d)
			}
			return nil
		},
	})
}

func c14Run(w *W) {
	n := 6
	if w.thorough() {
		n = 7
	}
	ifsList := []struct {
		v   string
		set bool
	}{{"", false}, {" \t\n", true}, {" ,", true}, {",", true}, {":", true}, {"", true}, {"é,", true}}
	for _, ifs := range ifsList {
		eff := ifs.v
		if !ifs.set {
			eff = " \t\n"
		}
		var ws, nws, other string
		for _, r := range eff {
			if unicode.IsSpace(r) && ws == "" {
				ws = string(r)
			}
			if !unicode.IsSpace(r) && nws == "" {
				nws = string(r)
			}
		}
		for _, c := range []string{"\t", " ", "\n"} {
			if !strings.Contains(eff, c) {
				other = c
				break
			}
		}
		kinds := []c14Seg{{"a", false}, {"a", true}, {"", true}}
		if ws != "" {
			kinds = append(kinds, c14Seg{ws, false}, c14Seg{ws, true})
		}
		if nws != "" {
			kinds = append(kinds, c14Seg{nws, false}, c14Seg{nws, true})
		}
		if other != "" {
			kinds = append(kinds, c14Seg{other, false})
		}
		cur := make([]c14Seg, 0, n)
		var rec func()
		rec = func() {
			if len(cur) > 0 && w.Mine() {
				w.Count("states", 1)
				for real := 0; real < 3; real++ {
					c := c14Case{IFS: ifs.v, IFSSet: ifs.set, Real: real, Segs: cur}
					w.Count("evaluations", 1)
					w.Count("transitions", 1)
					w.Count("traces_validated_against_impl", 1)
					d, nt := c14Judge(c)
					if nt {
						w.Count("distinct_nontrivial", 1)
						cc := c
						cc.Segs = append([]c14Seg{}, cur...)
						w.Sample(cc)
					}
					if d != "" {
						cc := c
						cc.Segs = append([]c14Seg{}, cur...)
						w.Violation("", cc, d)
					}
				}
			}
			if len(cur) == n {
				return
			}
			for _, k := range kinds {
				cur = append(cur, k)
				rec()
				cur = cur[:len(cur)-1]
			}
		}
		rec()
	}
}
