package main

// C04 — every recorded position designates the token it documents.
//
// Intrinsic oracle on (source, AST): no expected tree is needed.  A typed walk
// checks, for every documented position field, that the characters at
// line:column spell the token; Pos() ≤ End(); both inside the source; a
// non-empty node has a non-zero End(); children inside parents; siblings in
// increasing order; columns count characters.

import (
	"encoding/json"
	"fmt"
	"reflect"
	"strings"

	"github.com/hattya/go.sh/ast"
	"github.com/hattya/go.sh/printer"
)

type posChecker struct {
	lines [][]rune
	errs  []string
}

func newPosChecker(src string) *posChecker {
	pc := &posChecker{}
	for _, l := range strings.Split(src, "\n") {
		pc.lines = append(pc.lines, []rune(l))
	}
	return pc
}

func (pc *posChecker) bad(format string, a ...interface{}) {
	if len(pc.errs) < 4 {
		pc.errs = append(pc.errs, fmt.Sprintf(format, a...))
	}
}

// inside: p designates a character of the source or the position just after the last character of a line.
func (pc *posChecker) inside(p ast.Pos) bool {
	if p.Line() < 1 || p.Line() > len(pc.lines) || p.Col() < 1 {
		return false
	}
	return p.Col() <= len(pc.lines[p.Line()-1])+1
}

// textAt returns the source text of n characters starting at p (crossing line ends).
func (pc *posChecker) textAt(p ast.Pos, n int) string {
	if !pc.inside(p) {
		return "\x00<outside>"
	}
	var b strings.Builder
	line, col := p.Line()-1, p.Col()-1
	for n > 0 && line < len(pc.lines) {
		if col < len(pc.lines[line]) {
			b.WriteRune(pc.lines[line][col])
			col++
		} else {
			if line == len(pc.lines)-1 {
				break
			}
			b.WriteByte('\n')
			line++
			col = 0
		}
		n--
	}
	return b.String()
}

// spells: the characters at p spell tok.
func (pc *posChecker) spells(what string, p ast.Pos, tok string) {
	if p.IsZero() {
		pc.bad("%s: position is zero, expected to point at %q", what, tok)
		return
	}
	if got := pc.textAt(p, len([]rune(tok))); got != tok {
		pc.bad("%s = %d:%d points at %q, expected %q", what, p.Line(), p.Col(), got, tok)
	}
}

func (pc *posChecker) optional(what string, p ast.Pos, tok string) {
	if !p.IsZero() {
		pc.spells(what, p, tok)
	}
}

type span struct{ pos, end ast.Pos }

// node checks the generic Pos/End rules and returns the span used for containment.
func (pc *posChecker) node(what string, n ast.Node, nonEmpty bool) span {
	p, e := n.Pos(), n.End()
	if nonEmpty {
		if p.IsZero() {
			pc.bad("%s: Pos() is zero for a node that has source text", what)
		}
		if e.IsZero() {
			pc.bad("%s: End() is zero for a node that has source text", what)
		}
	}
	if !p.IsZero() && !pc.inside(p) {
		pc.bad("%s: Pos() %d:%d is outside the source", what, p.Line(), p.Col())
	}
	if !e.IsZero() && !pc.inside(e) {
		pc.bad("%s: End() %d:%d is outside the source", what, e.Line(), e.Col())
	}
	if !p.IsZero() && !e.IsZero() && p.After(e) {
		pc.bad("%s: Pos() %d:%d is after End() %d:%d", what, p.Line(), p.Col(), e.Line(), e.Col())
	}
	return span{p, e}
}

func (pc *posChecker) within(what string, child, parent span) {
	if child.pos.IsZero() || parent.pos.IsZero() || child.end.IsZero() || parent.end.IsZero() {
		return
	}
	if child.pos.Before(parent.pos) || child.end.After(parent.end) {
		pc.bad("%s [%d:%d,%d:%d) is not inside its parent [%d:%d,%d:%d)", what, child.pos.Line(), child.pos.Col(), child.end.Line(), child.end.Col(),
			parent.pos.Line(), parent.pos.Col(), parent.end.Line(), parent.end.Col())
	}
}

// endsAfterLast: whatever here-documents do to the End() of earlier children, a node never ends before the child that
// comes last in the source ends, and never starts after its first child.
func (pc *posChecker) endsAfterLast(what string, parent, last span) {
	if parent.end.IsZero() || last.end.IsZero() {
		return
	}
	if parent.end.Before(last.end) {
		pc.bad("%s ends at %d:%d, before its last child ends (%d:%d)", what, parent.end.Line(), parent.end.Col(), last.end.Line(), last.end.Col())
	}
}

func (pc *posChecker) ordered(what string, prev, cur span) {
	if prev.pos.IsZero() || cur.pos.IsZero() {
		return
	}
	if !prev.pos.Before(cur.pos) {
		pc.bad("%s: sibling at %d:%d does not come after its predecessor at %d:%d", what, cur.pos.Line(), cur.pos.Col(), prev.pos.Line(), prev.pos.Col())
	}
}

func hasHeredoc(rs []*ast.Redir) bool {
	for _, r := range rs {
		if r.Op == "<<" || r.Op == "<<-" {
			return true
		}
	}
	return false
}

func (pc *posChecker) commands(what string, cmds []ast.Command, parent span, hd *bool) {
	var prev span
	for i, c := range cmds {
		sp := pc.command(fmt.Sprintf("%s[%d]", what, i), c, hd)
		if !*hd {
			pc.within(fmt.Sprintf("%s[%d]", what, i), sp, parent)
		} else if !sp.pos.IsZero() && !parent.pos.IsZero() && sp.pos.Before(parent.pos) {
			pc.bad("%s[%d] starts before its parent", what, i)
		}
		if i > 0 {
			pc.ordered(what, prev, sp)
		}
		prev = sp
	}
}

// command returns the node's span; *hd is set when a here-document was seen
// below (its End() lies after the rest of the command line by nature).
func (pc *posChecker) command(what string, c ast.Command, hd *bool) span {
	switch c := c.(type) {
	case ast.List:
		sp := pc.node(what+":List", c, true)
		var prev span
		for i, ao := range c {
			s := pc.command(fmt.Sprintf("%s.List[%d]", what, i), ao, hd)
			if i > 0 {
				pc.ordered(what+".List", prev, s)
			}
			prev = s
		}
		pc.endsAfterLast(what+":List", sp, prev)
		return sp
	case *ast.AndOrList:
		sp := pc.node(what+":AndOrList", c, true)
		prev := pc.command(what+".Pipeline", c.Pipeline, hd)
		for i, ao := range c.List {
			pc.spells(fmt.Sprintf("%s.List[%d].OpPos", what, i), ao.OpPos, ao.Op)
			if ao.Op != "&&" && ao.Op != "||" {
				pc.bad("%s: AndOr operator %q", what, ao.Op)
			}
			s := pc.command(fmt.Sprintf("%s.List[%d].Pipeline", what, i), ao.Pipeline, hd)
			pc.ordered(what+".List", prev, span{ao.OpPos, ao.OpPos})
			pc.ordered(what+".List", span{ao.OpPos, ao.OpPos}, s)
			prev = s
		}
		if c.Sep != "" || !c.SepPos.IsZero() {
			pc.spells(what+".SepPos", c.SepPos, c.Sep)
		}
		pc.endsAfterLast(what+":AndOrList", sp, prev)
		return sp
	case *ast.Pipeline:
		sp := pc.node(what+":Pipeline", c, true)
		pc.optional(what+".Bang", c.Bang, "!")
		prev := pc.command(what+".Cmd", c.Cmd, hd)
		for i, p := range c.List {
			pc.spells(fmt.Sprintf("%s.List[%d].OpPos", what, i), p.OpPos, "|")
			s := pc.command(fmt.Sprintf("%s.List[%d].Cmd", what, i), p.Cmd, hd)
			pc.ordered(what+".List", prev, s)
			prev = s
		}
		pc.endsAfterLast(what+":Pipeline", sp, prev)
		return sp
	case *ast.Cmd:
		sp := pc.node(what+":Cmd", c, true)
		var inner span
		if c.Expr != nil {
			inner = pc.expr(what, c.Expr, hd)
			if !*hd {
				pc.within(what+".Expr", inner, sp)
			}
		}
		for i, r := range c.Redirs {
			pc.redir(fmt.Sprintf("%s.Redirs[%d]", what, i), r, hd)
		}
		if hasHeredoc(c.Redirs) {
			*hd = true
		}
		return sp
	case nil:
		return span{}
	}
	pc.bad("%s: unexpected command type %T", what, c)
	return span{}
}

func (pc *posChecker) redir(what string, r *ast.Redir, hd *bool) {
	pc.node(what, r, true)
	if r.N != nil {
		pc.spells(what+".N", r.N.ValuePos, r.N.Value)
		if got := pc.textAt(r.N.End(), len(r.Op)); got != r.Op {
			pc.bad("%s: the operator does not follow the IO number directly (%q)", what, got)
		}
	}
	pc.spells(what+".OpPos", r.OpPos, r.Op)
	pc.word(what+".Word", r.Word, hd)
	if len(r.Word) > 0 && !r.Word.Pos().After(r.OpPos) {
		pc.bad("%s: the word does not come after the operator", what)
	}
	if r.Op == "<<" || r.Op == "<<-" {
		if r.Heredoc != nil {
			pc.word(what+".Heredoc", r.Heredoc, hd)
		}
		if r.Delim != nil {
			pc.word(what+".Delim", r.Delim, hd)
			if len(r.Heredoc) > 0 && len(r.Delim) > 0 && !r.Heredoc.Pos().Before(r.Delim.Pos()) {
				pc.bad("%s: the body does not come before the delimiter line", what)
			}
		}
	}
}

func (pc *posChecker) expr(what string, x ast.CmdExpr, hd *bool) span {
	switch x := x.(type) {
	case *ast.SimpleCmd:
		nonEmpty := len(x.Assigns)+len(x.Args) > 0
		sp := span{}
		if nonEmpty {
			sp = pc.node(what+":SimpleCmd", x, true)
		}
		var prev span
		for i, a := range x.Assigns {
			w := fmt.Sprintf("%s.Assigns[%d]", what, i)
			s := pc.node(w, a, true)
			pc.spells(w+".Name", a.Name.ValuePos, a.Name.Value)
			if got := pc.textAt(a.Name.End(), len(a.Op)); got != a.Op {
				pc.bad("%s: %q does not follow the name (found %q)", w, a.Op, got)
			}
			if len(a.Value) > 0 {
				pc.word(w+".Value", a.Value, hd)
				want := ast.NewPos(a.Name.End().Line(), a.Name.End().Col()+len(a.Op))
				if a.Value.Pos() != want {
					pc.bad("%s.Value starts at %d:%d, expected %d:%d (columns count characters)", w, a.Value.Pos().Line(), a.Value.Pos().Col(), want.Line(), want.Col())
				}
			}
			if i > 0 {
				pc.ordered(what+".Assigns", prev, s)
			}
			prev = s
		}
		prev = span{}
		for i, a := range x.Args {
			s := pc.word(fmt.Sprintf("%s.Args[%d]", what, i), a, hd)
			if i > 0 {
				pc.ordered(what+".Args", prev, s)
			}
			if !*hd {
				pc.within(fmt.Sprintf("%s.Args[%d]", what, i), s, sp)
			}
			prev = s
		}
		return sp
	case *ast.Subshell:
		sp := pc.node(what+":Subshell", x, true)
		pc.spells(what+".Lparen", x.Lparen, "(")
		pc.spells(what+".Rparen", x.Rparen, ")")
		pc.commands(what+".List", x.List, sp, hd)
		return sp
	case *ast.Group:
		sp := pc.node(what+":Group", x, true)
		pc.spells(what+".Lbrace", x.Lbrace, "{")
		pc.spells(what+".Rbrace", x.Rbrace, "}")
		pc.commands(what+".List", x.List, sp, hd)
		return sp
	case *ast.ArithEval:
		sp := pc.node(what+":ArithEval", x, true)
		pc.spells(what+".Left", x.Left, "((")
		pc.spells(what+".Right", x.Right, "))")
		pc.within(what+".Expr", pc.word(what+".Expr", x.Expr, hd), sp)
		return sp
	case *ast.ForClause:
		sp := pc.node(what+":ForClause", x, true)
		pc.spells(what+".For", x.For, "for")
		pc.spells(what+".Name", x.Name.ValuePos, x.Name.Value)
		pc.optional(what+".In", x.In, "in")
		pc.optional(what+".Semicolon", x.Semicolon, ";")
		pc.spells(what+".Do", x.Do, "do")
		pc.spells(what+".Done", x.Done, "done")
		var prev span
		for i, it := range x.Items {
			s := pc.word(fmt.Sprintf("%s.Items[%d]", what, i), it, hd)
			if i > 0 {
				pc.ordered(what+".Items", prev, s)
			}
			prev = s
		}
		pc.commands(what+".List", x.List, span{x.Do, x.Done}, hd)
		return sp
	case *ast.CaseClause:
		sp := pc.node(what+":CaseClause", x, true)
		pc.spells(what+".Case", x.Case, "case")
		pc.word(what+".Word", x.Word, hd)
		pc.spells(what+".In", x.In, "in")
		pc.spells(what+".Esac", x.Esac, "esac")
		var prev span
		for i, ci := range x.Items {
			w := fmt.Sprintf("%s.Items[%d]", what, i)
			s := pc.node(w, ci, ci.Break != (ast.Pos{}) || len(ci.List) > 0)
			pc.optional(w+".Lparen", ci.Lparen, "(")
			pc.spells(w+".Rparen", ci.Rparen, ")")
			pc.optional(w+".Break", ci.Break, ";;")
			for k, p := range ci.Patterns {
				pc.word(fmt.Sprintf("%s.Patterns[%d]", w, k), p, hd)
			}
			pc.commands(w+".List", ci.List, span{ci.Rparen, x.Esac}, hd)
			if i > 0 {
				pc.ordered(what+".Items", prev, s)
			}
			prev = s
		}
		return sp
	case *ast.IfClause:
		sp := pc.node(what+":IfClause", x, true)
		pc.spells(what+".If", x.If, "if")
		pc.spells(what+".Then", x.Then, "then")
		pc.spells(what+".Fi", x.Fi, "fi")
		pc.commands(what+".Cond", x.Cond, span{x.If, x.Then}, hd)
		pc.commands(what+".List", x.List, span{x.Then, x.Fi}, hd)
		for i, e := range x.Else {
			w := fmt.Sprintf("%s.Else[%d]", what, i)
			switch e := e.(type) {
			case *ast.ElifClause:
				pc.node(w, e, true)
				pc.spells(w+".Elif", e.Elif, "elif")
				pc.spells(w+".Then", e.Then, "then")
				pc.commands(w+".Cond", e.Cond, span{e.Elif, e.Then}, hd)
				pc.commands(w+".List", e.List, span{e.Then, x.Fi}, hd)
			case *ast.ElseClause:
				pc.node(w, e, true)
				pc.spells(w+".Else", e.Else, "else")
				pc.commands(w+".List", e.List, span{e.Else, x.Fi}, hd)
			}
		}
		return sp
	case *ast.WhileClause:
		sp := pc.node(what+":WhileClause", x, true)
		pc.spells(what+".While", x.While, "while")
		pc.spells(what+".Do", x.Do, "do")
		pc.spells(what+".Done", x.Done, "done")
		pc.commands(what+".Cond", x.Cond, span{x.While, x.Do}, hd)
		pc.commands(what+".List", x.List, span{x.Do, x.Done}, hd)
		return sp
	case *ast.UntilClause:
		sp := pc.node(what+":UntilClause", x, true)
		pc.spells(what+".Until", x.Until, "until")
		pc.spells(what+".Do", x.Do, "do")
		pc.spells(what+".Done", x.Done, "done")
		pc.commands(what+".Cond", x.Cond, span{x.Until, x.Do}, hd)
		pc.commands(what+".List", x.List, span{x.Do, x.Done}, hd)
		return sp
	case *ast.FuncDef:
		sp := pc.node(what+":FuncDef", x, true)
		pc.spells(what+".Name", x.Name.ValuePos, x.Name.Value)
		pc.spells(what+".Lparen", x.Lparen, "(")
		pc.spells(what+".Rparen", x.Rparen, ")")
		b := pc.command(what+".Body", x.Body, hd)
		if !*hd {
			pc.within(what+".Body", b, sp)
		}
		return sp
	}
	pc.bad("%s: unexpected expression type %T", what, x)
	return span{}
}

func printNode(n ast.Node) (s string, ok bool) {
	defer func() {
		if recover() != nil {
			ok = false
		}
	}()
	var b strings.Builder
	if err := printer.Fprint(&b, n); err != nil {
		return "", false
	}
	return b.String(), true
}

func containsSubst(w ast.Word) bool {
	for _, p := range w {
		switch p := p.(type) {
		case *ast.CmdSubst, *ast.ArithExp:
			return true
		case *ast.Quote:
			if containsSubst(p.Value) {
				return true
			}
		case *ast.ParamExp:
			if containsSubst(p.Word) {
				return true
			}
		}
	}
	return false
}

func (pc *posChecker) word(what string, w ast.Word, hd *bool) span {
	if len(w) == 0 {
		return span{}
	}
	sp := pc.node(what, w, true)
	var prev span
	for i, p := range w {
		s := pc.part(fmt.Sprintf("%s[%d]", what, i), p, hd)
		pc.within(fmt.Sprintf("%s[%d]", what, i), s, sp)
		if i > 0 {
			pc.ordered(what, prev, s)
			if !prev.end.IsZero() && !s.pos.IsZero() && prev.end != s.pos && !strings.Contains(what, "Expr") && !strings.Contains(what, "Heredoc") {
				pc.bad("%s[%d] starts at %d:%d but its predecessor ends at %d:%d (parts of a word are adjacent)", what, i, s.pos.Line(), s.pos.Col(), prev.end.Line(), prev.end.Col())
			}
		}
		prev = s
	}
	// for word-level nodes without command substitutions the source text between Pos and End is the printed node
	if !containsSubst(w) && !sp.pos.IsZero() && !sp.end.IsZero() && !strings.Contains(what, "Expr") {
		if txt, ok := printNode(w); ok {
			n := len([]rune(txt))
			if got := pc.textAt(sp.pos, n); got != txt {
				pc.bad("%s: source at Pos() is %q, the node prints as %q", what, got, txt)
			}
			// End() must be exactly n characters after Pos()
			if end := pc.advance(sp.pos, n); end != sp.end {
				pc.bad("%s: End() is %d:%d, but Pos() + %d characters (%q) is %d:%d", what, sp.end.Line(), sp.end.Col(), n, txt, end.Line(), end.Col())
			}
		}
	}
	return sp
}

func (pc *posChecker) advance(p ast.Pos, n int) ast.Pos {
	line, col := p.Line(), p.Col()
	for _, r := range pc.textAt(p, n) {
		if r == '\n' {
			line++
			col = 1
		} else {
			col++
		}
	}
	return ast.NewPos(line, col)
}

func (pc *posChecker) part(what string, p ast.WordPart, hd *bool) span {
	switch p := p.(type) {
	case *ast.Lit:
		sp := pc.node(what+":Lit", p, p.Value != "")
		if p.Value != "" {
			pc.spells(what+":Lit", p.ValuePos, p.Value)
		}
		return sp
	case *ast.Quote:
		sp := pc.node(what+":Quote", p, true)
		pc.spells(what+".TokPos", p.TokPos, p.Tok)
		if len(p.Value) > 0 {
			in := pc.word(what+".Value", p.Value, hd)
			pc.within(what+".Value", in, sp)
		}
		return sp
	case *ast.ParamExp:
		sp := pc.node(what+":ParamExp", p, true)
		pc.spells(what+".Dollar", p.Dollar, "$")
		if p.Braces {
			if got := pc.textAt(p.Dollar, 2); got != "${" {
				pc.bad("%s: Braces set but the source at Dollar is %q", what, got)
			}
		}
		if p.Name != nil {
			pc.spells(what+".Name", p.Name.ValuePos, p.Name.Value)
		}
		if p.Op != "" {
			pc.spells(what+".OpPos", p.OpPos, p.Op)
		}
		if len(p.Word) > 0 {
			pc.within(what+".Word", pc.word(what+".Word", p.Word, hd), sp)
		}
		return sp
	case *ast.CmdSubst:
		sp := pc.node(what+":CmdSubst", p, true)
		if p.Dollar {
			pc.spells(what+".Left", p.Left, "(")
			pc.spells(what+".Pos()", p.Pos(), "$(")
			pc.spells(what+".Right", p.Right, ")")
		} else {
			pc.spells(what+".Left", p.Left, "`")
			pc.spells(what+".Right", p.Right, "`")
		}
		inner := false
		pc.commands(what+".List", p.List, sp, &inner)
		return sp
	case *ast.ArithExp:
		sp := pc.node(what+":ArithExp", p, true)
		pc.spells(what+".Left", p.Left, "$((")
		pc.spells(what+".Right", p.Right, "))")
		pc.within(what+".Expr", pc.word(what+".Expr", p.Expr, hd), sp)
		return sp
	}
	pc.bad("%s: unexpected word part %T", what, p)
	return span{}
}

// c04Check returns the position faults of (src, cmds, comments).
func c04Check(src string, cmds []ast.Command, comments []*ast.Comment) []string {
	pc := newPosChecker(src)
	var prev span
	for i, c := range cmds {
		hd := false
		s := pc.command(fmt.Sprintf("cmd[%d]", i), c, &hd)
		if i > 0 {
			pc.ordered("commands", prev, s)
		}
		prev = s
	}
	var pcm ast.Pos
	for i, c := range comments {
		pc.spells(fmt.Sprintf("comment[%d].Hash", i), c.Hash, "#"+c.Text)
		if i > 0 && !pcm.Before(c.Hash) {
			pc.bad("comment[%d] at %d:%d is not after the previous comment", i, c.Hash.Line(), c.Hash.Col())
		}
		pcm = c.Hash
	}
	return pc.errs
}

var _ = reflect.DeepEqual

func c04One(w *W, ss []sym, r rendered) {
	if strings.Contains(r.src, "\\\n") {
		return // text inside line continuations (also in a here-document body) is a documented exclusion of the property
	}
	w.Announce(r.src)
	o := runParse(r.src)
	if o.pan != nil || o.err != nil {
		return // C01–C03 judge acceptance; C04 is about accepted sources
	}
	w.Count("states", 1)
	w.Count("transitions", int64(len(ss)))
	w.Count("evaluations", 1)
	w.Count("traces_validated_against_impl", 1)
	if len(o.cmds) > 0 {
		w.Count("distinct_nontrivial", 1)
		w.Sample(symCase{symTexts(ss), r.src})
	}
	var faults []string
	func() {
		defer func() {
			if e := recover(); e != nil {
				faults = []string{fmt.Sprintf("walking the AST panicked: %v", e)}
			}
		}()
		faults = c04Check(r.src, o.cmds, o.comments)
	}()
	if len(faults) > 0 {
		w.Violation(c04Class(faults), symCase{symTexts(ss), r.src}, fmt.Sprintf("ParseCommands(%q): %s", r.src, strings.Join(faults, "; ")))
	}
}

func c04Class(faults []string) string { return "" }

// multi-byte variant of a sentence: plain words become multi-byte words
var mbMap = map[string]string{"a": "日本", "b": "é", "f": "é", "c": "日本"}

func multiByte(texts []string) ([]string, bool) {
	out := make([]string, len(texts))
	changed := false
	for i, t := range texts {
		if m, ok := mbMap[t]; ok && (i == 0 || texts[i-1] != "for") {
			out[i] = m
			changed = true
		} else {
			out[i] = t
		}
	}
	return out, changed
}

func c04Run(w *W) {
	// (a) every accepted string of the tier's alphabets and bounds
	exploreSymStrings(w, func(ss []sym, m gramResult, r rendered, o parseObs, accepted bool) {
		if o.err != nil || o.pan != nil {
			return
		}
		w.Count("evaluations", 1)
		w.Count("traces_validated_against_impl", 1)
		if len(o.cmds) > 0 {
			w.Count("distinct_nontrivial", 1)
		}
		var faults []string
		func() {
			defer func() {
				if e := recover(); e != nil {
					faults = []string{fmt.Sprintf("walking the AST panicked: %v", e)}
				}
			}()
			faults = c04Check(r.src, o.cmds, o.comments)
		}()
		if len(faults) > 0 {
			w.Violation(c04Class(faults), mkSymCase(ss), fmt.Sprintf("ParseCommands(%q): %s", r.src, strings.Join(faults, "; ")))
		}
	})
	// (c) the repetition family: one construct repeated or nested n = 1 … 24 times (line numbers and columns above 9)
	for n := 1; n <= 24; n++ {
		if !w.Mine() || w.TimeUp() {
			continue
		}
		for _, src := range repetitionSources(n) {
			if strings.Contains(src, "\\\n") {
				continue // line continuations are excluded by the property
			}
			w.Announce(src)
			o := runParse(src) // (positions are relative to the call: only the first command of the source is looked at)
			if o.err != nil || o.pan != nil {
				continue
			}
			cmds, comments := o.cmds, o.comments
			w.Count("states", 1)
			w.Count("evaluations", 1)
			w.Count("repetition_sources", 1)
			w.Count("traces_validated_against_impl", 1)
			w.Count("distinct_nontrivial", 1)
			var faults []string
			func() {
				defer func() {
					if e := recover(); e != nil {
						faults = []string{fmt.Sprintf("walking the AST panicked: %v", e)}
					}
				}()
				faults = c04Check(src, cmds, comments)
			}()
			if len(faults) > 0 {
				w.Violation(c04Class(faults), symCase{nil, src}, fmt.Sprintf("ParseCommands(%q): %s", src, strings.Join(faults, "; ")))
			}
		}
	}
	// (b) the derivation sets in three layouts, plus their multi-byte variants
	seen := map[string]bool{}
	derivations(w.thorough(), func(name string, texts []string) {
		key := strings.Join(texts, "\x00")
		if seen[key] {
			return
		}
		seen[key] = true
		if strings.Contains(key, "\\\n") {
			return // text inside line continuations is a documented exclusion of the property
		}
		if !w.Mine() || w.TimeUp() {
			return
		}
		variants := [][]string{texts}
		if mb, ok := multiByte(texts); ok {
			variants = append(variants, mb)
		}
		for _, v := range variants {
			ss := syms(append(append([]string{}, v...), "\n")...)
			m := gramParse(ss)
			c04One(w, ss, render(ss))
			c04One(w, ss, renderTight(ss))
			if eof := ss[:len(ss)-1]; !hasHere(eof) {
				c04One(w, eof, render(eof)) // the input ends with the last token, no final newline
			}
			if m.ok {
				ml := multiLine(ss, m)
				c04One(w, ml, render(ml))
				if sn := semiNewline(ss, m); sn != nil && semiNewlineFamily(name, w.thorough()) {
					c04One(w, sn, render(sn))
				}
			}
		}
	})
}

func init() {
	register(&check{
		id:    "C04",
		level: "model_checking",
		rule: "every source of the C02 spaces that the parser accepts (symbol strings of the tier's alphabets/bounds; derivation sets D0–D3 and the word menu in one-line, tight, multi-line and end-of-input (no final newline) layouts, each also with multi-byte words 日本 / é); " +
			"non-trivial = at least one command in the result",
		assume: []string{"the oracle is intrinsic to (source, AST): each documented position must spell its token in the source; no expected tree",
			"sources with alias substitution or line continuations are outside the property and not generated; Comment.End is excluded (pinned by the repository's own test)",
			"a node that carries a here-document ends at its delimiter line, i.e. after the rest of the command line; containment in the enclosing node is not demanded for such nodes"},
		run: c04Run,
		replay: func(raw json.RawMessage) error {
			var c symCase
			if err := json.Unmarshal(raw, &c); err != nil {
				return err
			}
			o := runParse(c.Src)
			fmt.Printf("source %q\nimpl: err=%v %s\n", c.Src, o.err, dumpAST(o.cmds, true))
			if o.err != nil {
				return nil
			}
			if f := c04Check(c.Src, o.cmds, o.comments); len(f) > 0 {
				return fmt.Errorf("%s", strings.Join(f, "; "))
			}
			return nil
		},
	})
}
