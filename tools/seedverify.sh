#!/bin/bash
# usage: tools/seedverify.sh <seed-id>…   confirms a seeded change in a scratch worktree of /repo's HEAD:
#   suite passes with the patch; demo fails with it; demo passes without it.
export GOFLAGS=-mod=mod GOPROXY=off GOSUMDB=off GOTOOLCHAIN=local
wt=/tmp/seedverify-wt
git -C /repo worktree remove --force $wt 2>/dev/null; git -C /repo worktree add --detach $wt ${SEEDBASE:-HEAD} >/dev/null 2>&1 || exit 2
for id in "$@"; do
  d=/verif/seeded/$id
  p=$d/patch.rebased.diff; [ -f $p ] || p=$d/patch.diff
  demo=$(ls $d/*_test.go 2>/dev/null | head -1)
  pkg=$(grep -m1 '^+++ b/' $p | sed 's|+++ b/||; s|/[^/]*$||')
  [ -n "$demo" ] && grep -q '^package' $demo && dpkg=$(grep -m1 '^package' $demo | awk '{print $2}' | sed 's/_test$//')
  [ -n "$dpkg" ] && pkg=$dpkg
  cd $wt && git checkout -q -- . && git clean -qfd
  cp $demo $wt/$pkg/ 2>/dev/null
  base=$(cd $wt && go test -vet=off -count=1 -run 'TestSeed' ./$pkg 2>&1 | tail -1 | cut -c1-60)
  if git apply --3way $p >/dev/null 2>&1; then
    git reset -q
    suite=$(go test -vet=off -count=1 ./... 2>&1 | grep -v 'TestSeed' | grep -c '^ok')
    withp=$(go test -vet=off -count=1 -run 'TestSeed' ./$pkg 2>&1 | tail -1 | cut -c1-60)
    rm -f $wt/$pkg/$(basename $demo)
    suite2=$(go test -vet=off -count=1 ./... 2>&1 | grep -c '^ok')
    echo "$id pkg=$pkg | demo without patch: $base | suite with patch: $suite2/5 ok | demo with patch: $withp"
  else
    echo "$id: patch does not apply"
  fi
done
cd /; git -C /repo worktree remove --force $wt
