#!/bin/bash
# usage: tools/seed4.sh <Cxx> [more check ids]   ingest a round-11 seed from /tmp/seedwork11, confirm it, run the property's check against it
id=$1; shift
src=/tmp/seedwork11/$id/out; dst=/verif/seeded/$id-r11
[ -f $src/patch.diff ] || { echo "$id: no patch.diff"; exit 1; }
mkdir -p $dst && cp -r $src/. $dst/
SEEDBASE=${SEEDBASE:-HEAD} /verif/tools/seedverify.sh $id-r11
SEEDALT_SHOW=1 SEEDALT_SRC=${SEEDALT_SRC:-/verif} /verif/tools/seedalt.sh $dst/patch.diff ${SEEDBASE:-HEAD} $id "$@"
