#!/bin/bash
# usage: tools/seed3.sh <Cxx> [more check ids]   ingest a round-3 seed from /tmp/seedwork3, confirm it, run the property's check against it
id=$1; shift
src=/tmp/seedwork3/$id/out; dst=/verif/seeded/$id-r3
[ -f $src/patch.diff ] || { echo "$id: no patch.diff"; exit 1; }
mkdir -p $dst && cp -r $src/. $dst/
SEEDBASE=dd1fee2 /verif/tools/seedverify.sh $id-r3
SEEDALT_SHOW=1 /verif/tools/seedalt.sh $dst/patch.diff dd1fee2 $id "$@"
