package main

// C13 — parameter expansion follows the POSIX operator table.
//
// Space: the complete product parameter kind × form (plain, braces, 8
// operators, length, 4 removals) × operator word menu × position (bare,
// double-quoted, embedded) × variable state × positional-parameter list ×
// nounset × IFS.  The source text is parsed by the real parser, expanded by
// the real Expand, and compared with xpmodel.go: fields, error, store.

import (
	"encoding/json"
	"fmt"
	"reflect"
	"sort"
	"strings"

	"github.com/hattya/go.sh/ast"
	"github.com/hattya/go.sh/interp"
	"github.com/hattya/go.sh/parser"
)

type c13Case struct {
	Src     string   `json:"src"`
	V       *string  `json:"v"` // nil = unset
	Args    []string `json:"args"`
	Nounset bool     `json:"nounset"`
	IFS     *string  `json:"ifs"` // nil = unset
}

func c13Parse(src string) (ast.Word, error) {
	cmd, _, err := parser.ParseCommand("c13", "echo "+src)
	if err != nil {
		return nil, err
	}
	sc, ok := cmd.(*ast.Cmd).Expr.(*ast.SimpleCmd)
	if !ok || len(sc.Args) != 2 {
		return nil, fmt.Errorf("source %q is not one word", src)
	}
	return sc.Args[1], nil
}

func strp(s string) *string { return &s }

func c13Judge(c c13Case, w ast.Word) (class, detail string, nontrivial bool) {
	// real
	given := append([]string{}, c.Args...)
	env := interp.NewExecEnv(given[0], given[1:]...)
	env.Opts = interp.NoGlob
	if c.Nounset {
		env.Opts |= interp.NoUnset
	}
	st := &xpState{vars: map[string]string{"y": "y1 y2"}, args: c.Args, nounset: c.Nounset}
	st.optstr = env.Opts.String()
	env.Set("y", "y1 y2")
	env.Unset("z")
	env.Unset("v")
	if c.V != nil {
		env.Set("v", *c.V)
		st.vars["v"] = *c.V
	}
	if c.IFS != nil {
		env.Set("IFS", *c.IFS)
		st.vars["IFS"] = *c.IFS
	} else {
		env.Unset("IFS")
	}
	var got []string
	var err error
	var pan interface{}
	func() {
		defer func() { pan = recover() }()
		got, err = env.Expand(w, 0)
	}()
	if pan != nil {
		return "panic", fmt.Sprintf("Expand(%s) panicked: %v [%s]", c.Src, pan, st), true
	}
	mf, merr := st.expandWord(w, false)
	if st.gray != "" {
		return "", "", false
	}
	gotVars := map[string]string{}
	for _, n := range []string{"v", "y", "z", "IFS"} {
		if v, ok := env.Get(n); ok {
			gotVars[n] = v.Value
		}
	}
	varsEq := reflect.DeepEqual(gotVars, st.vars)
	// positional parameters can be read but not assigned: neither the environment's nor the caller's slice changes
	if !reflect.DeepEqual(env.Args, c.Args) || !reflect.DeepEqual(given, c.Args) {
		return "positional-parameters-modified", fmt.Sprintf("Expand(%s) changed the positional parameters: %q (caller's slice %q), they were %q", c.Src, env.Args, given, c.Args), true
	}
	if merr != nil {
		nontrivial = true
		switch {
		case err == nil:
			return "missing-error", fmt.Sprintf("Expand(%s) = %q, nil; POSIX prescribes an error (%v) [%s]", c.Src, got, merr, st), true
		default:
			if _, ok := err.(interp.ParamExpError); !ok {
				return "wrong-error-type", fmt.Sprintf("Expand(%s) fails with %T %v, not a ParamExpError [%s]", c.Src, err, err, st), true
			}
		}
		if !varsEq {
			return "store-after-error", fmt.Sprintf("Expand(%s) fails (%v) but the variables are %v, model %v", c.Src, err, gotVars, st.vars), true
		}
		return "", "", true
	}
	want := st.split(mf)
	nontrivial = len(want) != 1 || !varsEq || strings.ContainsAny(c.Src, ":-=?+%#")
	if err != nil {
		return "unexpected-error", fmt.Sprintf("Expand(%s) fails with %v; the table gives %q [%s]", c.Src, err, want, st), true
	}
	if len(got) == 0 && len(want) == 0 {
		got, want = nil, nil
	}
	if !reflect.DeepEqual(got, want) {
		return "fields", fmt.Sprintf("Expand(%s) = %q; the table gives %q [%s]", c.Src, got, want, st), true
	}
	if !varsEq {
		return "store", fmt.Sprintf("Expand(%s) = %q is right but the variables afterwards are %v, model %v", c.Src, got, gotVars, st.vars), true
	}
	return "", "", nontrivial
}

// ---- histories on ONE environment: IFS (and v) change between expansions of $@ / $*

type c13Step struct {
	Op  string  `json:"op"` // "keep", "set", "unset" (of IFS)
	IFS *string `json:"ifs,omitempty"`
	Src string  `json:"src"`
}

type c13Hist struct {
	Args  []string  `json:"args"`
	Steps []c13Step `json:"history"`
}

func c13HistJudge(h c13Hist) string {
	env := interp.NewExecEnv(h.Args[0], h.Args[1:]...)
	env.Opts = interp.NoGlob
	st := &xpState{vars: map[string]string{}, args: h.Args}
	st.optstr = env.Opts.String()
	env.Unset("IFS")
	env.Unset("v")
	var trail []string
	for i, sp := range h.Steps {
		switch sp.Op {
		case "set":
			env.Set("IFS", *sp.IFS)
			st.vars["IFS"] = *sp.IFS
			trail = append(trail, fmt.Sprintf("IFS=%q", *sp.IFS))
		case "unset":
			env.Unset("IFS")
			delete(st.vars, "IFS")
			trail = append(trail, "unset IFS")
		}
		trail = append(trail, "expand "+sp.Src)
		word, err := c13Parse(sp.Src)
		if err != nil {
			return fmt.Sprintf("the parser rejects %q: %v", sp.Src, err)
		}
		var got []string
		var pan interface{}
		func() {
			defer func() { pan = recover() }()
			got, err = env.Expand(word, 0)
		}()
		if pan != nil {
			return fmt.Sprintf("step %d of [%s] with args %q: Expand panicked: %v", i, strings.Join(trail, "; "), h.Args, pan)
		}
		mf, merr := st.expandWord(word, false)
		if st.gray != "" {
			return ""
		}
		if (merr != nil) != (err != nil) {
			return fmt.Sprintf("step %d of [%s] with args %q on one environment: Expand gives %q, %v; the table gives error=%v", i, strings.Join(trail, "; "), h.Args, got, err, merr)
		}
		if merr != nil {
			continue
		}
		want := st.split(mf)
		if len(got) == 0 && len(want) == 0 {
			got, want = nil, nil
		}
		if !reflect.DeepEqual(got, want) {
			return fmt.Sprintf("step %d of [%s] with args %q on one environment: Expand gives %q, the table gives %q", i, strings.Join(trail, "; "), h.Args, got, want)
		}
		for _, n := range []string{"v", "IFS"} {
			gv, gok := env.Get(n)
			mv, mok := st.vars[n]
			if gok != mok || gok && gv.Value != mv {
				return fmt.Sprintf("step %d of [%s] with args %q on one environment: afterwards %s is %q (set=%v), the table gives %q (set=%v)", i, strings.Join(trail, "; "), h.Args, n, gv.Value, gok, mv, mok)
			}
		}
	}
	return ""
}

// c13Histories: every sequence of ≤ 3 steps (IFS kept / set to one of 4 values / unset, then one of 8 probe
// words) for two positional lists.
func c13Histories(w *W) {
	type op struct {
		op  string
		ifs *string
	}
	ops := []op{{"keep", nil}, {"set", strp(":")}, {"set", strp(" \t\n")}, {"set", strp("")}, {"set", strp(",x")}, {"unset", nil}}
	probes := []string{`"$*"`, `$*`, `"$@"`, `$@`, `x"$*"y`, `"${*}"`, `${v:="$*"}`, `"$v"`}
	depth := 3
	var steps []c13Step
	for _, o := range ops {
		for _, p := range probes {
			steps = append(steps, c13Step{o.op, o.ifs, p})
		}
	}
	for _, args := range [][]string{{"sh", "a", "b"}, {"sh", "a b", "", "c"}} {
		cur := make([]c13Step, 0, depth)
		var rec func()
		rec = func() {
			if len(cur) > 0 && w.Mine() && !w.TimeUp() {
				h := c13Hist{Args: args, Steps: append([]c13Step{}, cur...)}
				if b, err := json.Marshal(h); err == nil {
					w.Announce("history " + string(b))
				}
				w.Count("evaluations", int64(len(cur)))
				w.Count("histories", 1)
				w.Count("states", 1)
				w.Count("transitions", int64(len(cur)))
				w.Count("traces_validated_against_impl", 1)
				if len(cur) > 1 {
					w.Count("distinct_nontrivial", 1)
				}
				if d := c13HistJudge(h); d != "" {
					w.Violation("history", h, d)
				}
			}
			if len(cur) == depth {
				return
			}
			for _, sp := range steps {
				cur = append(cur, sp)
				rec()
				cur = cur[:len(cur)-1]
			}
		}
		rec()
	}
}

func c13Sources(thorough bool) []string {
	names := []string{"v", "1", "10", "@", "*", "#", "?", "0", "-", "!"}
	words := []string{"", "w", "$y", "${z:=s}", "'q q'", "a b", "\"$@\"", "*", "${z:+a}${z:=b}"}
	pats := []string{"*", "?", "a*", "'*'", "b", "[a-c]", "$y", "*b", "\\*", "é", "${z:=s}", "${q?}", "[", "'\\'", "\"\\\\\"", "'b\\'*"}
	_ = thorough
	var inner []string
	for _, n := range names {
		if len(n) == 1 {
			inner = append(inner, "$"+n)
		}
		inner = append(inner, "${"+n+"}", "${#"+n+"}")
		for _, op := range []string{":-", "-", ":=", "=", ":?", "?", ":+", "+"} {
			for _, w := range words {
				inner = append(inner, "${"+n+op+w+"}")
			}
		}
		for _, op := range []string{"%", "%%", "#", "##"} {
			for _, p := range pats {
				inner = append(inner, "${"+n+op+p+"}")
			}
		}
	}
	var out []string
	for _, in := range inner {
		out = append(out, in, `"`+in+`"`, "x"+in+"y", `"x`+in+`y"`, `"`+in+`: y"`, `x"`+in+` y"`)
	}
	sort.Strings(out)
	return out
}

func c13Run(w *W) {
	srcs := c13Sources(w.thorough())
	vstates := []*string{nil, strp(""), strp("v"), strp("a b"), strp("a:b"), strp("*"), strp("é"), strp("abab"), strp("ab\\")}
	eleven := []string{"sh", "p1", "p2", "p3", "p4", "p5", "p6", "p7", "p8", "p9", "abc", "p11"}
	argsList := [][]string{{"sh"}, {"sh", ""}, {"sh", "a"}, {"sh", "a b", "c"}, eleven, {"sh", "", ""}}
	ifsList := []*string{strp(" \t\n"), strp(":"), strp(""), nil}
	for _, src := range srcs {
		if !w.Mine() {
			continue
		}
		if w.TimeUp() {
			return
		}
		w.Announce(src)
		word, err := c13Parse(src)
		if err != nil {
			w.Violation("parse", map[string]string{"src": src}, fmt.Sprintf("the parser rejects the parameter expansion %q: %v", src, err))
			continue
		}
		w.Count("states", 1)
		for _, v := range vstates {
			for _, args := range argsList {
				for _, nu := range []bool{false, true} {
					for _, ifs := range ifsList {
						c := c13Case{Src: src, V: v, Args: args, Nounset: nu, IFS: ifs}
						w.Count("evaluations", 1)
						w.Count("transitions", 1)
						w.Count("traces_validated_against_impl", 1)
						cl, d, nt := c13Judge(c, word)
						if nt {
							w.Count("distinct_nontrivial", 1)
							w.Sample(c)
						}
						if d != "" {
							w.Violation(cl, c, d)
						}
					}
				}
			}
		}
	}
}

func init() {
	register(&check{
		id:    "C13",
		level: "model_checking",
		rule: "complete product {v, 1, 10, @, *, #, ?, 0, -, !} × {$p, ${p}, ${#p}, 8 default/assign/error/alternative operators × word menu, 4 removal operators × pattern menu} × {bare, double-quoted, embedded, embedded+quoted, first in a quoted part that goes on, the same after unquoted text} " +
			"× v ∈ {unset, '', v, 'a b', a:b, *, é, abab} × 6 positional lists × nounset × IFS ∈ {default, ':', '', unset}; plus histories on ONE environment: every sequence of ≤ 3 steps (IFS kept / set to ':', default, '', ',x' / unset, then one of 8 words around $* and $@ incl. ${v:=\"$*\"}) for two positional lists, each step compared with the table; non-trivial = an operator form, a multi-field result, an error or an assignment",
		assume: []string{"reference expansion model xpmodel.go (POSIX table, $@/$*, C14 splitter, pattern model of C12)",
			"constructs POSIX or the property leave open are skipped for comparison (only 'no panic'): $- with no option, $$, ${#@}, $@/$* with no positional parameters under non-colon operators, removal on $*, ${p:=w} with quoted w outside double quotes"},
		run: func(w *W) { c13Run(w); c13Histories(w) },
		replay: func(raw json.RawMessage) error {
			var h c13Hist
			if err := json.Unmarshal(raw, &h); err == nil && len(h.Steps) > 0 {
				if d := c13HistJudge(h); d != "" {
					return fmt.Errorf("%s", d)
				}
				return nil
			}
			var c c13Case
			if err := json.Unmarshal(raw, &c); err != nil {
				return err
			}
			word, err := c13Parse(c.Src)
			if err != nil {
				return err
			}
			if cl, d, _ := c13Judge(c, word); d != "" {
				return fmt.Errorf("[%s] %s", cl, d)
			}
			return nil
		},
	})
}
