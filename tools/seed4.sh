#!/bin/bash
# usage: tools/seed4.sh <Cxx> [more check ids]   ingest a round-4 seed from /tmp/seedwork4, confirm it, run the property's check against it
id=$1; shift
src=/tmp/seedwork4/$id/out; dst=/verif/seeded/$id-r4
[ -f $src/patch.diff ] || { echo "$id: no patch.diff"; exit 1; }
mkdir -p $dst && cp -r $src/. $dst/
SEEDBASE=HEAD /verif/tools/seedverify.sh $id-r4
SEEDALT_SHOW=1 /verif/tools/seedalt.sh $dst/patch.diff HEAD $id "$@"
