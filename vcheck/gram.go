package main

// Reference grammar model: a recursive-descent parser of the POSIX Shell
// Command Language grammar (XCU 2.10) plus go.sh's (( )) command, working on
// symbols.  Token recognition is done by grammar context, as XCU 2.10.1/2.4
// prescribe: a word spelled like a reserved word is that reserved word exactly
// where the grammar admits reserved words; name=… before the command name is
// an assignment; digits glued to a redirection operator are an IO_NUMBER.
//
// It builds go.sh AST values (positions zero) in the documented node shapes,
// so that a position-free dump can be compared with the real parser's result.

import (
	"strings"

	"github.com/hattya/go.sh/ast"
)

type gramResult struct {
	ok       bool
	dontcare string      // non-empty: neither POSIX nor the property fixes the verdict
	cmd      ast.Command // nil for an empty line
	comments []string    // comment texts, in order
	consumed int         // symbols consumed, including the terminating newline
	errAt    int         // index of the symbol at which the sentence stops being a prefix of the grammar
	errMsg   string
	heredocs []*ast.Redir // in operator order
	// sepOK[i]: at the boundary before symbol i the grammar is at a point where
	// linebreak (optional newlines) is admitted.
	linebreakAt map[int]bool
	// semiNL[i]: symbol i is a ';' that could equally be a newline (or vice versa)
	sepAt map[int]bool
	// cmdNameAt[i]: symbol i is the command-name word of a simple command (the position where alias substitution applies)
	cmdNameAt map[int]bool
}

type gramFail struct {
	at  int
	msg string
}

type gram struct {
	t        []sym
	i        int
	comments []string
	pending  []*ast.Redir // here-documents waiting for their body
	pendSym  []sym
	res      *gramResult
	depth    int // nesting of compound commands (newlines inside are linebreaks)
}

func (g *gram) fail(msg string) {
	panic(gramFail{g.i, msg})
}

func (g *gram) dontcare(why string) {
	if g.res.dontcare == "" {
		g.res.dontcare = why
	}
}

// peek returns the next symbol, consuming comments (a comment swallows every
// symbol up to the next newline symbol).
func (g *gram) peek() *sym {
	for g.i < len(g.t) && g.t[g.i].kind == kComment {
		var txt []string
		j := g.i
		for j < len(g.t) && g.t[j].kind != kNL {
			txt = append(txt, g.t[j].text)
			j++
		}
		g.comments = append(g.comments, strings.Join(txt, " ")[1:])
		g.i = j
	}
	if g.i < len(g.t) {
		return &g.t[g.i]
	}
	return nil
}

func (g *gram) next() *sym {
	s := g.peek()
	if s != nil {
		g.i++
		g.comments = append(g.comments, s.inner...)
	}
	return s
}

func (g *gram) isOp(s *sym, t string) bool  { return s != nil && s.kind == kOp && s.op == t }
func (g *gram) isRes(s *sym, t string) bool { return s != nil && s.kind == kWord && s.text == t }
func (g *gram) isNL(s *sym) bool            { return s != nil && s.kind == kNL }

func isNameStr(s string) bool {
	if s == "" {
		return false
	}
	for i, c := range s {
		if !(c == '_' || c >= 'a' && c <= 'z' || c >= 'A' && c <= 'Z' || c > 127 && isLetterRune(c) || i > 0 && c >= '0' && c <= '9') {
			return false
		}
	}
	return true
}

func isLetterRune(c rune) bool {
	// XBD 3.235 Name: underscores, digits and alphabetics from the portable
	// character set.  Non-ASCII letters are outside the portable set.
	return false
}

// assignment reports whether the word symbol is an ASSIGNMENT_WORD candidate.
func isAssignSym(s *sym) (name string, ok bool) {
	if s == nil || s.kind != kWord {
		return "", false
	}
	w := s.parts()
	l, isLit := w[0].(*ast.Lit)
	if !isLit {
		return "", false
	}
	i := strings.IndexByte(l.Value, '=')
	if i <= 0 || !isNameStr(l.Value[:i]) {
		return "", false
	}
	return l.Value[:i], true
}

// newline consumes one newline symbol and attaches the bodies of the pending
// here-documents (the renderer wrote them right after it).
func (g *gram) newline() {
	g.i++
	for k, r := range g.pending {
		h := g.pendSym[k]
		if h.noDelim {
			g.fail("here-document delimited by the end of the input")
		}
		if !h.quotedDelim && (strings.Contains(h.body, "${v\n") || strings.Contains(h.body, "a`b\n")) {
			g.fail("unterminated expansion in the body of a here-document with an unquoted delimiter")
		}
		r.Heredoc, r.Delim = hereBody(h)
	}
	g.pending, g.pendSym = nil, nil
}

// hereBody: the expected representation of a body and delimiter line.
func hereBody(h sym) (body, delim ast.Word) {
	body = ast.Word{}
	if h.body != "" {
		if h.quotedDelim {
			body = ast.Word{wLit(h.body)}
		} else {
			body = hereParts(h.body)
		}
	}
	d := h.delim
	if h.strip {
		d = "\t" + d
	}
	return body, ast.Word{wLit(d)}
}

// hereParts splits an unquoted here-document body into literal text and
// expansions for the forms the body menus use.
func hereParts(s string) ast.Word {
	var w ast.Word
	var lit strings.Builder
	flush := func() {
		if lit.Len() > 0 {
			w = append(w, wLit(lit.String()))
			lit.Reset()
		}
	}
	for i := 0; i < len(s); {
		switch {
		case strings.HasPrefix(s[i:], "${v}"):
			flush()
			w = append(w, wPEB("v", "", nil))
			i += 4
		case strings.HasPrefix(s[i:], "$1"):
			flush()
			w = append(w, wPE("1"))
			i += 2
		case strings.HasPrefix(s[i:], "$v"):
			flush()
			w = append(w, wPE("v"))
			i += 2
		case strings.HasPrefix(s[i:], "$(c >f)"):
			flush()
			c := simpleCmd("c")
			c.Redirs = []*ast.Redir{{Op: ">", Word: ast.Word{wLit("f")}}}
			w = append(w, wCS(true, c))
			i += 7
		case strings.HasPrefix(s[i:], "$(c)"):
			flush()
			w = append(w, wCS(true, simpleCmd("c")))
			i += 4
		case strings.HasPrefix(s[i:], "`c`"):
			flush()
			w = append(w, wCS(false, simpleCmd("c")))
			i += 3
		case strings.HasPrefix(s[i:], "\\\n"):
			// line continuation inside the body: removed, the literal text is cut there
			flush()
			i += 2
		case strings.HasPrefix(s[i:], `\$`) || strings.HasPrefix(s[i:], "\\`") || strings.HasPrefix(s[i:], `\\`):
			flush()
			w = append(w, wBS(s[i+1:i+2]))
			i += 2
		default:
			lit.WriteByte(s[i])
			i++
		}
	}
	flush()
	return w
}

func (g *gram) linebreak() {
	g.res.linebreakAt[g.i] = true
	for g.isNL(g.peek()) {
		g.newline()
		g.res.linebreakAt[g.i] = true
	}
}

// ---- program: one complete command (what one ParseCommands call consumes)

func gramParse(ss []sym) (res gramResult) {
	res.linebreakAt = map[int]bool{}
	res.sepAt = map[int]bool{}
	res.cmdNameAt = map[int]bool{}
	g := &gram{t: ss, res: &res}
	defer func() {
		res.comments = g.comments
		if e := recover(); e != nil {
			f, is := e.(gramFail)
			if !is {
				panic(e)
			}
			res.ok = false
			res.errAt = f.at
			res.errMsg = f.msg
		}
	}()
	s := g.peek()
	if s == nil {
		res.ok, res.consumed = true, g.i
		return
	}
	if g.isNL(s) {
		if len(g.comments) > 0 {
			// a comment on a line of its own: go.sh's own tests pin that such lines (and the blank
			// lines after them) are skipped and the next command is parsed by the same call; the
			// properties only say that blank lines give empty results.  Either reading is accepted.
			g.dontcare("comment-only line before the command")
		}
		g.newline()
		res.ok, res.consumed = true, g.i
		return
	}
	list := g.list()
	s = g.peek()
	switch {
	case s == nil:
		if len(g.pending) > 0 {
			g.fail("here-document delimited by end of input")
		}
	case g.isNL(s):
		g.newline()
	default:
		g.fail("unexpected " + s.text)
	}
	res.ok = true
	res.consumed = g.i
	if len(list) > 1 {
		res.cmd = list
	} else {
		res.cmd = extract(list[0])
	}
	return
}

// extract collapses an and-or list to the documented node shape.
func extract(ao *ast.AndOrList) ast.Command {
	switch {
	case len(ao.List) != 0 || ao.Sep != "":
		return ao
	case ao.Pipeline.Bang != (ast.Pos{}) || len(ao.Pipeline.List) != 0:
		return ao.Pipeline
	}
	return ao.Pipeline.Cmd
}

var bangMark = ast.NewPos(1, 1) // "has !" marker; positions are not compared

// list: and_or (sep_op and_or)* [sep_op]     (top level, one line)
func (g *gram) list() ast.List {
	l := ast.List{g.andOr()}
	for {
		s := g.peek()
		if g.isOp(s, ";") || g.isOp(s, "&") {
			g.next()
			l[len(l)-1].Sep = s.op
			n := g.peek()
			if n == nil || g.isNL(n) {
				return l
			}
			l = append(l, g.andOr())
			continue
		}
		return l
	}
}

// compoundList: linebreak term [separator], ending before one of the closers.
// It returns the documented grouping: and-or lists joined by ; or & form one
// command (a List when there are several), a newline starts a new command.
func (g *gram) compoundList(closers ...string) []ast.Command {
	g.linebreak()
	var cmds []ast.Command
	cur := ast.List{g.andOr()}
	flush := func() {
		if len(cur) == 1 {
			cmds = append(cmds, extract(cur[0]))
		} else {
			cmds = append(cmds, cur)
		}
	}
	atCloser := func() bool {
		s := g.peek()
		for _, c := range closers {
			if c == ";;" || c == ")" {
				if g.isOp(s, c) {
					return true
				}
			} else if g.isRes(s, c) {
				return true
			}
		}
		return false
	}
	for {
		s := g.peek()
		newGroup := false
		switch {
		case g.isOp(s, ";") || g.isOp(s, "&"):
			g.res.sepAt[g.i] = s.op == ";"
			g.next()
			cur[len(cur)-1].Sep = s.op
			g.linebreak()
		case g.isNL(s):
			g.res.sepAt[g.i] = true
			g.linebreak()
			newGroup = true
		default:
			flush()
			return cmds
		}
		if atCloser() {
			flush()
			return cmds
		}
		if g.peek() == nil {
			g.fail("unexpected end of input")
		}
		if newGroup {
			flush()
			cur = ast.List{g.andOr()}
		} else {
			cur = append(cur, g.andOr())
		}
	}
}

func (g *gram) andOr() *ast.AndOrList {
	ao := &ast.AndOrList{Pipeline: g.pipeline()}
	for {
		s := g.peek()
		if g.isOp(s, "&&") || g.isOp(s, "||") {
			g.next()
			g.linebreak()
			ao.List = append(ao.List, &ast.AndOr{Op: s.op, Pipeline: g.pipeline()})
			continue
		}
		return ao
	}
}

func (g *gram) pipeline() *ast.Pipeline {
	p := &ast.Pipeline{}
	if g.isRes(g.peek(), "!") {
		g.next()
		p.Bang = bangMark
	}
	p.Cmd = g.command()
	for g.isOp(g.peek(), "|") {
		g.next()
		g.linebreak()
		p.List = append(p.List, &ast.Pipe{Op: "|", Cmd: g.command()})
	}
	return p
}

func (g *gram) isRedirStart(s *sym) bool {
	if s == nil {
		return false
	}
	if s.kind == kIONum || s.kind == kHere {
		return true
	}
	if s.kind == kOp {
		switch s.op {
		case "<", ">", ">>", ">|", "<&", ">&", "<>":
			return true
		}
	}
	return false
}

func (g *gram) redir() *ast.Redir {
	s := g.next()
	r := &ast.Redir{Op: s.op}
	if s.num != "" {
		r.N = wLit(s.num)
	}
	if s.kind == kHere {
		r.Word = s.parts()
		g.pending = append(g.pending, r)
		g.pendSym = append(g.pendSym, *s)
		g.res.heredocs = append(g.res.heredocs, r)
		return r
	}
	w := g.next()
	if w == nil {
		g.fail("redirection operator without a word (end of input)")
	}
	if w.kind == kBroken {
		g.i--
		g.fail("unterminated " + w.text)
	}
	if w.kind != kWord {
		g.i--
		g.fail("redirection operator followed by " + w.text)
	}
	r.Word = w.parts()
	return r
}

func (g *gram) redirs() []*ast.Redir {
	var rs []*ast.Redir
	for g.isRedirStart(g.peek()) {
		rs = append(rs, g.redir())
	}
	return rs
}

func (g *gram) expectRes(t string) {
	s := g.peek()
	if !g.isRes(s, t) {
		if s == nil {
			g.fail("unexpected end of input, expecting " + t)
		}
		g.fail("unexpected " + s.text + ", expecting " + t)
	}
	g.next()
}

// afterCompound: redirections of a compound command, then the rule for what
// may follow its closing token.
func (g *gram) afterCompound(c *ast.Cmd) *ast.Cmd {
	c.Redirs = g.redirs()
	return c
}

func (g *gram) command() *ast.Cmd {
	s := g.peek()
	if s == nil {
		g.fail("unexpected end of input, expecting a command")
	}
	switch {
	case s.kind == kBroken:
		g.fail("unterminated " + s.text)
	case s.kind == kArith:
		g.next()
		return g.afterCompound(&ast.Cmd{Expr: &ast.ArithEval{Expr: s.parts()}})
	case g.isOp(s, "("):
		g.next()
		list := g.compoundList(")")
		if !g.isOp(g.peek(), ")") {
			g.failHere("expecting )")
		}
		g.next()
		return g.afterCompound(&ast.Cmd{Expr: &ast.Subshell{List: list}})
	case s.kind == kWord && reservedWords[s.text]:
		return g.compound(s)
	}
	return g.simple()
}

func (g *gram) failHere(msg string) {
	s := g.peek()
	if s == nil {
		g.fail("unexpected end of input, " + msg)
	}
	g.fail("unexpected " + s.text + ", " + msg)
}

func (g *gram) compound(s *sym) *ast.Cmd {
	switch s.text {
	case "{":
		g.next()
		list := g.compoundList("}")
		g.expectRes("}")
		return g.afterCompound(&ast.Cmd{Expr: &ast.Group{List: list}})
	case "if":
		g.next()
		x := &ast.IfClause{}
		x.Cond = g.compoundList("then")
		g.expectRes("then")
		x.List = g.compoundList("elif", "else", "fi")
		for g.isRes(g.peek(), "elif") {
			g.next()
			e := &ast.ElifClause{}
			e.Cond = g.compoundList("then")
			g.expectRes("then")
			e.List = g.compoundList("elif", "else", "fi")
			x.Else = append(x.Else, e)
		}
		if g.isRes(g.peek(), "else") {
			g.next()
			x.Else = append(x.Else, &ast.ElseClause{List: g.compoundList("fi")})
		}
		g.expectRes("fi")
		return g.afterCompound(&ast.Cmd{Expr: x})
	case "while", "until":
		g.next()
		cond := g.compoundList("do")
		body := g.doGroup()
		if s.text == "while" {
			return g.afterCompound(&ast.Cmd{Expr: &ast.WhileClause{Cond: cond, List: body}})
		}
		return g.afterCompound(&ast.Cmd{Expr: &ast.UntilClause{Cond: cond, List: body}})
	case "for":
		g.next()
		n := g.peek()
		if n == nil {
			g.fail("unexpected end of input after for")
		}
		if n.kind == kBroken {
			g.fail("unterminated " + n.text)
		}
		if n.kind == kWord && !isASCII(n.text) {
			g.dontcare("non-ASCII for loop variable (XBD Name is limited to the portable character set)")
		} else if n.kind != kWord || !isPlainName(n) {
			g.fail("invalid for loop variable " + n.text)
		}
		g.next()
		x := &ast.ForClause{Name: wLit(n.text)}
		semi := ast.NewPos(1, 1)
		t := g.peek()
		switch {
		case g.isRes(t, "do"):
		case g.isOp(t, ";"):
			g.res.sepAt[g.i] = true
			g.next()
			x.Semicolon = semi
			g.linebreak()
		default:
			g.linebreak()
			if g.isRes(g.peek(), "in") {
				g.next()
				x.In = semi
				for {
					w := g.peek()
					if w != nil && w.kind == kBroken {
						g.fail("unterminated " + w.text)
					}
					if w != nil && w.kind == kWord {
						g.next()
						x.Items = append(x.Items, w.parts())
						continue
					}
					break
				}
				t := g.peek()
				switch {
				case g.isOp(t, ";"):
					g.res.sepAt[g.i] = true
					g.next()
					x.Semicolon = semi
					g.linebreak()
				case g.isNL(t):
					g.linebreak()
				default:
					g.failHere("expecting ; or newline after the for word list")
				}
			} else if !g.isNL(t) {
				g.failHere("expecting in, do, ; or newline")
			}
		}
		x.List = g.doGroup()
		return g.afterCompound(&ast.Cmd{Expr: x})
	case "case":
		g.next()
		w := g.peek()
		if w == nil {
			g.fail("unexpected end of input after case")
		}
		if w.kind == kBroken {
			g.fail("unterminated " + w.text)
		}
		if w.kind != kWord {
			g.fail("unexpected " + w.text + " after case")
		}
		g.next()
		x := &ast.CaseClause{Word: w.parts()}
		g.linebreak()
		g.expectRes("in")
		g.linebreak()
		for !g.isRes(g.peek(), "esac") {
			ci := &ast.CaseItem{}
			if g.isOp(g.peek(), "(") {
				g.next()
				ci.Lparen = ast.NewPos(1, 1)
			}
			for {
				p := g.peek()
				if p == nil {
					g.fail("unexpected end of input in case pattern")
				}
				if p.kind == kBroken {
					g.fail("unterminated " + p.text)
				}
				if p.kind != kWord {
					g.fail("unexpected " + p.text + " in case pattern")
				}
				if p.text == "esac" && len(ci.Patterns) == 0 {
					g.dontcare("esac as the first pattern after '(' (rule 4 makes it the Esac token, shells differ)")
				}
				g.next()
				ci.Patterns = append(ci.Patterns, p.parts())
				if g.isOp(g.peek(), "|") {
					g.next()
					continue
				}
				break
			}
			if !g.isOp(g.peek(), ")") {
				g.failHere("expecting ) after the case pattern")
			}
			g.next()
			g.linebreak()
			if !g.isOp(g.peek(), ";;") && !g.isRes(g.peek(), "esac") {
				ci.List = g.compoundList(";;", "esac")
			}
			if g.isOp(g.peek(), ";;") {
				g.next()
				ci.Break = ast.NewPos(1, 1)
				g.linebreak()
			} else if !g.isRes(g.peek(), "esac") {
				g.failHere("expecting ;; or esac")
			}
			x.Items = append(x.Items, ci)
		}
		g.expectRes("esac")
		return g.afterCompound(&ast.Cmd{Expr: x})
	}
	g.fail("reserved word " + s.text + " cannot start a command")
	return nil
}

func isASCII(s string) bool {
	for _, c := range s {
		if c > 127 {
			return false
		}
	}
	return true
}

func isPlainName(s *sym) bool {
	w := s.parts()
	if len(w) != 1 {
		return false
	}
	l, ok := w[0].(*ast.Lit)
	return ok && isNameStr(l.Value)
}

func (g *gram) doGroup() []ast.Command {
	g.expectRes("do")
	l := g.compoundList("done")
	g.expectRes("done")
	return l
}

var spBuiltins = map[string]bool{"break": true, ":": true, "continue": true, ".": true, "eval": true, "exec": true, "exit": true, "export": true,
	"readonly": true, "return": true, "set": true, "shift": true, "times": true, "trap": true, "unset": true}

func (g *gram) simple() *ast.Cmd {
	sc := &ast.SimpleCmd{}
	c := &ast.Cmd{Expr: sc}
	n := 0
	// prefix
	for {
		s := g.peek()
		if g.isRedirStart(s) {
			c.Redirs = append(c.Redirs, g.redir())
			n++
			continue
		}
		if s != nil && s.kind == kWord && !isASCII(s.text) && strings.Contains(s.text, "=") {
			g.dontcare("name=value with a non-ASCII name (XBD Name is limited to the portable character set; go.sh accepts letters)")
		}
		if name, ok := isAssignSym(s); ok {
			g.next()
			w := s.parts()
			l := w[0].(*ast.Lit)
			rest := l.Value[len(name)+1:]
			var val ast.Word
			if rest != "" {
				val = append(ast.Word{wLit(rest)}, w[1:]...)
			} else {
				val = append(ast.Word{}, w[1:]...)
			}
			sc.Assigns = append(sc.Assigns, &ast.Assign{Name: wLit(name), Op: "=", Value: val})
			n++
			continue
		}
		break
	}
	s := g.peek()
	if s != nil && s.kind == kBroken {
		g.fail("unterminated " + s.text)
	}
	if s != nil && s.kind == kWord {
		if n > 0 && reservedWords[s.text] {
			// XCU 2.4: reserved words are recognised only as the first word of a command;
			// after an assignment or redirection prefix the word is the command name.
		}
		first := n == 0
		g.res.cmdNameAt[g.i] = true
		g.next()
		n++
		if first && !isASCII(s.text) && g.isOp(g.peek(), "(") {
			g.dontcare("non-ASCII function name")
		}
		if first && isPlainName(s) && g.isOp(g.peek(), "(") {
			// function definition
			g.next()
			if !g.isOp(g.peek(), ")") {
				g.failHere("expecting ) in function definition")
			}
			g.next()
			if spBuiltins[s.text] {
				g.dontcare("special built-in name as function name")
			}
			g.linebreak()
			b := g.peek()
			if b == nil {
				g.fail("unexpected end of input, expecting a function body")
			}
			ok := b.kind == kArith || g.isOp(b, "(") || b.kind == kWord && (b.text == "{" || b.text == "if" || b.text == "while" || b.text == "until" || b.text == "for" || b.text == "case")
			if !ok {
				if b.kind == kWord || g.isRedirStart(b) {
					g.dontcare("function body that is not a compound command")
				}
				g.fail("function body must be a compound command")
			}
			body := g.command()
			return &ast.Cmd{Expr: &ast.FuncDef{Name: wLit(s.text), Body: body}}
		}
		sc.Args = append(sc.Args, s.parts())
		for {
			s := g.peek()
			if g.isRedirStart(s) {
				c.Redirs = append(c.Redirs, g.redir())
				continue
			}
			if s != nil && s.kind == kBroken {
				g.fail("unterminated " + s.text)
			}
			if s != nil && s.kind == kWord {
				g.next()
				sc.Args = append(sc.Args, s.parts())
				continue
			}
			break
		}
	}
	if n == 0 {
		g.failHere("expecting a command")
	}
	return c
}
