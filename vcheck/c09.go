package main

// C09 — layout is inert: blanks, comments and line continuations do not change meaning.
//
// Metamorphic: every accepted sentence × every token boundary × {two blanks,
// tab, no blank (where the texts still split into the same tokens),
// backslash-newline, comment before an existing newline or at end of input,
// newline for ';' where the grammar admits either, extra blank line where the
// grammar admits linebreak}.  The untransformed parse is the oracle.

import (
	"encoding/json"
	"fmt"
	"reflect"
	"strings"
)

type atom struct {
	text string
	sym  int  // index of the symbol it belongs to
	head bool // first atom of its symbol
}

// atoms splits the glued symbols ("2>", "<<E", "3<<E") into their tokens.
func atomsOf(ss []sym) []atom {
	var out []atom
	for i, s := range ss {
		switch s.kind {
		case kIONum:
			out = append(out, atom{s.num, i, true}, atom{s.op, i, false})
		case kHere:
			h := true
			if s.num != "" {
				out = append(out, atom{s.num, i, true})
				h = false
			}
			out = append(out, atom{s.op, i, h}, atom{strings.TrimPrefix(strings.TrimPrefix(s.text, s.num), s.op), i, false})
		default:
			out = append(out, atom{s.text, i, true})
		}
	}
	return out
}

// renderAtoms renders with sep(b, def) deciding the separator before atom b
// (b == len(atoms): text appended at the end of input).
func renderAtoms(ss []sym, at []atom, sep func(b int, def string) string) string {
	var b strings.Builder
	var pending []sym
	comment := false
	for k, a := range at {
		s := ss[a.sym]
		def := ""
		if a.head && k > 0 && ss[at[k-1].sym].kind != kNL && s.kind != kNL {
			def = " "
		}
		if s.kind == kNL {
			b.WriteString(sep(k, def))
			b.WriteByte('\n')
			comment = false
			for _, h := range pending {
				b.WriteString(h.body)
				if h.strip {
					b.WriteByte('\t')
				}
				b.WriteString(h.delim + "\n")
			}
			pending = nil
			continue
		}
		b.WriteString(sep(k, def))
		b.WriteString(a.text)
		if s.kind == kComment {
			comment = true
		}
		if s.kind == kHere && !comment && k+1 < len(at) && at[k+1].sym != a.sym || s.kind == kHere && !comment && k+1 == len(at) {
			// last atom of a here-document symbol
			pending = append(pending, s)
		}
	}
	b.WriteString(sep(len(at), ""))
	return b.String()
}

type c09Case struct {
	Syms      []string `json:"symbols"`
	Base      string   `json:"base_source"`
	Variant   string   `json:"variant_source"`
	Transform string   `json:"transform"`
}

type c09Ref struct {
	dump     string
	sem      string // `;`, newline and no separator coincide
	comments []string
}

func c09Parse(src string) (c09Ref, error, interface{}) {
	o := runParse(src)
	if o.pan != nil || o.err != nil {
		return c09Ref{}, o.err, o.pan
	}
	d := dumpAST(o.cmds, false)
	if len(o.cmds) == 0 {
		d = "[]"
	}
	return c09Ref{d, semDump(o.cmds), commentTexts(o.comments)}, nil, nil
}

// c09Variants calls f(name, variantSource, insertedCommentIndex) for every single layout change.
// cmIdx is the index at which an inserted comment "k" must appear among the comments (-1: none).
// c09Pairs: also apply pairs of boundary-level changes (set for the small base sentences)
var c09Pairs bool

func c09Variants(ss []sym, m gramResult, f func(name, src string, cmIdx int)) {
	at := atomsOf(ss)
	// which atoms lie after a comment on their line (layout there is comment text)
	inComment := make([]bool, len(at)+1)
	commentsBefore := make([]int, len(at)+1)
	c, n := false, 0
	for k, a := range at {
		inComment[k] = c
		commentsBefore[k] = n
		if ss[a.sym].kind == kNL {
			c = false
		}
		if ss[a.sym].kind == kComment && !c {
			c = true
			n++
		}
		if a.head {
			n += len(ss[a.sym].inner) // comments inside a word's substitution come first
		}
	}
	inComment[len(at)] = c
	commentsBefore[len(at)] = n
	only := func(b int, s string) func(int, string) string {
		return func(k int, def string) string {
			if k == b {
				return s
			}
			return def
		}
	}
	type bchange struct {
		b      int
		layout string
		name   string
		cm     int
	}
	var singles []bchange
	f0 := f
	f = func(name, src string, cmIdx int) { f0(name, src, cmIdx) }
	note := func(b int, layout, name string, cm int) { singles = append(singles, bchange{b, layout, name, cm}) }
	defer func() {
		if !c09Pairs {
			return
		}
		// pairs: a first change that inserts no comment at one boundary, any second change at a later boundary
		for i, c1 := range singles {
			if c1.cm >= 0 {
				continue
			}
			for _, c2 := range singles[i+1:] {
				if c2.b <= c1.b {
					continue
				}
				lay := func(k int, def string) string {
					switch k {
					case c1.b:
						return c1.layout
					case c2.b:
						return c2.layout
					}
					return def
				}
				f0("pair: "+c1.name+" + "+c2.name, renderAtoms(ss, at, lay), c2.cm)
			}
		}
	}()
	for b := 0; b <= len(at); b++ {
		if inComment[b] {
			continue
		}
		// only the command the call parses is observed: stay inside the consumed symbols
		if b < len(at) && at[b].sym >= m.consumed || b == len(at) && m.consumed < len(ss) {
			continue
		}
		var cur, prev *sym
		if b < len(at) {
			cur = &ss[at[b].sym]
		}
		if b > 0 {
			prev = &ss[at[b-1].sym]
		}
		def := ""
		if b < len(at) && at[b].head && b > 0 && prev.kind != kNL && cur.kind != kNL {
			def = " "
		}
		intra := b < len(at) && !at[b].head
		switch {
		case b == len(at):
			note(b, " ", "trailing blank at end of input", -1)
			f("trailing blank at end of input", renderAtoms(ss, at, only(b, " ")), -1)
			if prev != nil && prev.kind != kNL && prev.kind != kBroken {
				note(b, " #k", "comment at end of input", commentsBefore[b])
				f("comment at end of input", renderAtoms(ss, at, only(b, " #k")), commentsBefore[b])
			}
		case cur.kind == kNL:
			note(b, " ", "blank before newline", -1)
			f("blank before newline", renderAtoms(ss, at, only(b, " ")), -1)
			if prev != nil && prev.kind != kNL {
				note(b, " #k", "comment before newline", commentsBefore[b])
				f("comment before newline", renderAtoms(ss, at, only(b, " #k")), commentsBefore[b])
				// a comment is plain text up to the newline, whatever characters it holds (sentences of ≤ 6 symbols)
				if len(ss) <= 6 {
					f("comment before newline «`'\")k\\»", renderAtoms(ss, at, only(b, " #`'\")k\\")), commentsBefore[b])
				}
			}
		case intra:
			note(b, "\\\n", "backslash-newline inside "+cur.text, -1)
			f("backslash-newline inside "+cur.text, renderAtoms(ss, at, only(b, "\\\n")), -1)
		case def == " ":
			note(b, "  ", "two blanks", -1)
			f("two blanks", renderAtoms(ss, at, only(b, "  ")), -1)
			f("tab", renderAtoms(ss, at, only(b, "\t")), -1)
			f("blank tab blank", renderAtoms(ss, at, only(b, " \t ")), -1)
			note(b, " \\\n", "backslash-newline", -1)
			f("backslash-newline", renderAtoms(ss, at, only(b, " \\\n")), -1)
			note(b, " \\\n ", "backslash-newline blank", -1)
			f("backslash-newline blank", renderAtoms(ss, at, only(b, " \\\n ")), -1)
			if glueOK(*prev, *cur) {
				note(b, "", "no blank", -1)
				f("no blank", renderAtoms(ss, at, only(b, "")), -1)
				note(b, "\\\n", "bare backslash-newline", -1)
				f("bare backslash-newline", renderAtoms(ss, at, only(b, "\\\n")), -1)
			}
		default: // start of input or of a line
			note(b, " ", "leading blank", -1)
			f("leading blank", renderAtoms(ss, at, only(b, " ")), -1)
			f("leading tab", renderAtoms(ss, at, only(b, "\t")), -1)
		}
	}
	// symbol-level changes, classified by the grammar model
	nl := symTable["\n"]
	for i, s := range ss {
		if i >= m.consumed {
			break
		}
		if s.kind == kOp && s.op == ";" && m.sepAt[i] {
			v := append(append(append([]sym{}, ss[:i]...), nl), ss[i+1:]...)
			f("newline for ;", render(v).src, -1)
		}
		if m.linebreakAt[i] && i > 0 {
			v := append(append(append([]sym{}, ss[:i]...), nl), ss[i:]...)
			f("extra newline where linebreak is admitted", render(v).src, -1)
		}
	}
	// a comment before the newline INSIDE a multi-line substitution of a word (it is returned with the others, in order)
	base := render(ss)
	inC, before := false, 0
	for i, s := range ss {
		if i >= m.consumed {
			break
		}
		switch {
		case s.kind == kNL:
			inC = false
		case s.kind == kComment && !inC:
			inC = true
			before++
		case s.kind == kWord && !inC && len(s.inner) == 0:
			if k := strings.Index(s.text, "b\nc"); k >= 0 && (strings.Contains(s.text, "$(") || strings.Contains(s.text, "`")) {
				pos := base.start[i] + k + 1
				f("comment before the newline inside "+s.text, base.src[:pos]+" #k"+base.src[pos:], before)
				texts := []string{"'k", "\"k", "$(k", "}k", "\\"}
				if !strings.Contains(s.text, "`") {
					// (a backquote met inside a comment while the end of a backquoted substitution is searched for:
					// undefined, XCU 2.6.3)
					texts = append(texts, "`k", ")k")
				}
				for _, t := range texts {
					f("comment «"+t+"» before the newline inside "+s.text, base.src[:pos]+" #"+t+base.src[pos:], before)
				}
			}
		}
		before += len(s.inner)
	}
}

// c09Text: the text of the inserted comment ("k" unless the transform's name carries another one in «…»).
func c09Text(name string) string {
	if i := strings.Index(name, "«"); i >= 0 {
		if j := strings.Index(name, "»"); j > i {
			return name[i+len("«") : j]
		}
	}
	return "k"
}

func c09Judge(base c09Ref, src string, cmIdx int, semantic bool, text string) string {
	v, err, pan := c09Parse(src)
	if pan != nil {
		return fmt.Sprintf("the variant panics: %v", pan)
	}
	if err != nil {
		return fmt.Sprintf("the variant is rejected: %v", err)
	}
	if semantic && v.sem != base.sem {
		return fmt.Sprintf("the variant parses to a different program\n got  %s\n want %s", v.sem, base.sem)
	}
	if !semantic && v.dump != base.dump {
		return fmt.Sprintf("the variant parses to a different program\n got  %s\n want %s", v.dump, base.dump)
	}
	want := base.comments
	if cmIdx > len(base.comments) {
		cmIdx = len(base.comments)
	}
	if cmIdx >= 0 {
		want = append(append(append([]string{}, base.comments[:cmIdx]...), text), base.comments[cmIdx:]...)
	}
	if !reflect.DeepEqual(v.comments, want) && len(v.comments)+len(want) > 0 {
		return fmt.Sprintf("comments %q, expected %q", v.comments, want)
	}
	return ""
}

func c09Sentence(w *W, ss []sym) {
	if lexicallyEntangled(ss) {
		return
	}
	m := gramParse(ss)
	if !m.ok || m.dontcare != "" {
		return
	}
	r := render(ss)
	w.Announce(r.src)
	base, err, pan := c09Parse(r.src)
	if err != nil || pan != nil {
		return // C02 judges acceptance
	}
	w.Count("states", 1)
	w.Count("distinct_nontrivial", 1)
	c09Variants(ss, m, func(name, src string, cmIdx int) {
		if src == r.src {
			return
		}
		w.Count("evaluations", 1)
		w.Count("transitions", 1)
		w.Count("traces_validated_against_impl", 1)
		if strings.HasPrefix(name, "pair: ") {
			w.Count("pairs_of_changes", 1)
		} else {
			w.Count("transform: "+strings.SplitN(name, " inside", 2)[0], 1)
		}
		if d := c09Judge(base, src, cmIdx, name == "newline for ;", c09Text(name)); d != "" {
			w.Violation("", c09Case{symTexts(ss), r.src, src, name}, fmt.Sprintf("%q → %q (%s): %s", r.src, src, name, d))
		}
	})
	w.Sample(map[string]string{"source": r.src})
}

func c09Run(w *W) {
	n := 3
	if w.thorough() {
		n = 4
	}
	sigma := append(append([]string{}, sigmaCore...), "-1", "2>>", "3<<E", "<<-E", "`c`", "a$v")
	genSyms(sigma, n, func(ss []sym) {
		if !w.Mine() || w.TimeUp() {
			return
		}
		c09Sentence(w, append([]sym{}, ss...))
	})
	// base sentences that already hold a trailing comment and more text after its newline: the lists of leaf
	// commands of ≤ 5 symbols with "#c <newline>" inserted at every position (what follows the comment's newline
	// shows whether a layout change makes that newline disappear)
	seenC := map[string]bool{}
	derivations(false, func(name string, texts []string) {
		if name != "D0" || len(texts) > 5 {
			return
		}
		for i := 1; i <= len(texts); i++ {
			t := append(append(append([]string{}, texts[:i]...), "#c", "\n"), texts[i:]...)
			t = append(t, "\n")
			key := strings.Join(t, "\x00")
			if seenC[key] || !w.Mine() || w.TimeUp() {
				seenC[key] = true
				continue
			}
			seenC[key] = true
			ss := syms(t...)
			if m := gramParse(ss); !m.ok && m.dontcare == "" && m.consumed == 0 {
				continue
			}
			w.Count("comment_bases", 1)
			c09Pairs = len(texts) <= 3 // the smallest of these sentences also get every pair of changes
			c09Sentence(w, ss)
			c09Pairs = false
		}
		if len(texts) <= 3 && w.Mine() && !w.TimeUp() {
			ss := syms(append(append([]string{}, texts...), "\n")...)
			c09Pairs = true
			w.Count("pair_bases", 1)
			c09Sentence(w, ss)
			c09Pairs = false
		}
	})
	seen := map[string]bool{}
	derivations(w.thorough(), func(name string, texts []string) {
		if !w.thorough() && (name == "D2" || name == "D3") {
			return
		}
		if name == "D3" || name == "WN" || name == "WG" {
			return
		}
		key := strings.Join(texts, "\x00")
		if seen[key] {
			return
		}
		seen[key] = true
		if !w.Mine() || w.TimeUp() {
			return
		}
		ss := syms(append(append([]string{}, texts...), "\n")...)
		c09Sentence(w, ss)
		// the multi-line layout as a base of its own: comments, blanks and extra newlines at every inner newline
		// … and the layout with a newline after every | && || (a linebreak the lexer consumes itself): comments before it
		if m := gramParse(ss); m.ok && (name == "D0" || name == "DH" && len(texts) <= 10) {
			nl := symTable["\n"]
			var lb []sym
			changed := false
			for i, sy := range ss {
				lb = append(lb, sy)
				if sy.kind == kOp && (sy.op == "|" || sy.op == "&&" || sy.op == "||") && m.linebreakAt[i+1] && ss[i+1].kind != kNL {
					lb = append(lb, nl)
					changed = true
				}
			}
			if changed {
				c09Sentence(w, lb)
			}
		}
		if !w.thorough() && (name == "DH" || name == "D1") && len(texts) > 12 {
			return // quick tier: the long sentences in their one-line layout only
		}
		if m := gramParse(ss); m.ok {
			if ml := multiLine(ss, m); render(ml).src != render(ss).src {
				c09Sentence(w, ml)
			}
		}
	})
}

func init() {
	register(&check{
		id:    "C09",
		level: "model_checking",
		rule: "every accepted sentence among all strings ≤ 3 (quick) / 4 (thorough) over Σcore+6 and the derivation sets D0, D1, word menu (thorough: D2) × every token boundary (including the boundaries inside 2> and <<E) × " +
			"{two blanks, tab, blank-tab-blank, no blank where the tokens stay the same, backslash-newline in 3 forms, leading/trailing blank, comment before a newline or at end of input, newline for ';', extra newline where linebreak is admitted}; all single applications; non-trivial = every base sentence",
		assume: []string{"metamorphic: the untransformed parse is the oracle; the grammar model only says where ';' ↔ newline and extra newlines are admitted and where dropping a blank keeps the tokens",
			"no transformation is applied behind a comment on the same line"},
		run: c09Run,
		replay: func(raw json.RawMessage) error {
			var c c09Case
			if err := json.Unmarshal(raw, &c); err != nil {
				return err
			}
			base, err, pan := c09Parse(c.Base)
			if err != nil || pan != nil {
				return nil
			}
			v, e2, p2 := c09Parse(c.Variant)
			fmt.Printf("base    %q → %s %q\nvariant %q → err=%v panic=%v %s %q\n", c.Base, base.dump, base.comments, c.Variant, e2, p2, v.dump, v.comments)
			if e2 != nil || p2 != nil || v.dump != base.dump && c.Transform != "newline for ;" || v.sem != base.sem {
				return fmt.Errorf("variant differs (%s)", c.Transform)
			}
			return nil
		},
	})
}
