package main

// C16 — pathname expansion returns exactly the existing matching paths, sorted.
//
// Space: a universe of small directory trees (built in a scratch directory
// that the check creates and removes) × all patterns ≤ N symbols over
// {a b * ? [ ] . / \} plus absolute variants.  Oracle: a component-by-component
// walk of the real file system (Lstat/Stat/ReadDir are taken as facts) with
// the reference matcher of C12, the hidden-file rule, the directory-only rule
// and a final sort.

import (
	"encoding/json"
	"fmt"
	"os"
	"path/filepath"
	"reflect"
	"sort"
	"strings"

	"github.com/hattya/go.sh/pattern"
)

type c16Entry struct {
	Name string `json:"name"`
	Kind string `json:"kind"` // file dir0 dirA dirDot dirAB dangling linkdir
}

type c16Case struct {
	Tree    []c16Entry `json:"tree"`
	Pattern string     `json:"pattern"` // "@ROOT@" stands for the scratch root
}

var c16Kinds = []string{"file", "dir0", "dirA", "dirDot", "dirAB", "dangling", "linkdir"}

func c16Build(base string, tree []c16Entry) (string, error) {
	root := filepath.Join(base, "root")
	os.RemoveAll(root)
	if err := os.MkdirAll(root, 0o755); err != nil {
		return "", err
	}
	target := filepath.Join(base, "target")
	if _, err := os.Stat(target); err != nil {
		os.MkdirAll(target, 0o755)
		os.WriteFile(filepath.Join(target, "a"), nil, 0o644)
		os.WriteFile(filepath.Join(target, "b"), nil, 0o644)
	}
	for _, e := range tree {
		p := filepath.Join(root, e.Name)
		var kids []string
		switch e.Kind {
		case "file":
			if err := os.WriteFile(p, nil, 0o644); err != nil {
				return "", err
			}
			continue
		case "dangling":
			if err := os.Symlink("nowhere", p); err != nil {
				return "", err
			}
			continue
		case "linkdir":
			if err := os.Symlink("../target", p); err != nil {
				return "", err
			}
			continue
		case "dirA":
			kids = []string{"a"}
		case "dirDot":
			kids = []string{".a"}
		case "dirAB":
			kids = []string{"a", "b", "a.b"}
		}
		if err := os.Mkdir(p, 0o755); err != nil {
			return "", err
		}
		for _, k := range kids {
			if err := os.WriteFile(filepath.Join(p, k), nil, 0o644); err != nil {
				return "", err
			}
		}
	}
	return root, os.Chdir(root)
}

type c16Comp struct {
	text string // raw component text (escapes kept)
	sep  string // "" or the separator text that follows, as it will appear in the result ("/")
}

// c16Split cuts a pattern at slashes; an escaped slash is still a separator.
func c16Split(pat string) (abs bool, comps []c16Comp) {
	rs := []rune(pat)
	var cur []rune
	for i := 0; i < len(rs); i++ {
		switch {
		case rs[i] == '\\' && i+1 < len(rs) && rs[i+1] == '/':
			comps = append(comps, c16Comp{string(cur), "/"})
			cur = nil
			i++
		case rs[i] == '\\' && i+1 < len(rs):
			cur = append(cur, rs[i], rs[i+1])
			i++
		case rs[i] == '/':
			comps = append(comps, c16Comp{string(cur), "/"})
			cur = nil
		default:
			cur = append(cur, rs[i])
		}
	}
	comps = append(comps, c16Comp{string(cur), ""})
	if len(comps) > 1 && comps[0].text == "" {
		abs = true
		comps = comps[1:]
	}
	return
}

// c16Model returns the expected result, or skip != "" when the pattern
// contains a component whose meaning is not fixed (malformed bracket, …).
func c16Model(pat string) (want []string, skip string) {
	if pat == "" {
		return nil, ""
	}
	abs, comps := c16Split(pat)
	paths := []string{""}
	if abs {
		paths = []string{"/"}
	}
	for _, c := range comps {
		if _, st := parsePattern([]rune(c.text)); st != patWellFormed {
			return nil, "component " + c.text + " is not a well-formed pattern"
		}
	}
	for ci, c := range comps {
		if c.text == "" {
			if c.sep != "" {
				for i := range paths {
					paths[i] += c.sep
				}
			}
			continue
		}
		es, st := parsePattern([]rune(c.text))
		if st != patWellFormed {
			return nil, "component " + c.text + " is not a well-formed pattern"
		}
		literal := true
		var lit strings.Builder
		for _, e := range es {
			if e.kind != 0 {
				literal = false
			}
			lit.WriteRune(e.c)
		}
		leadingDot := len(es) > 0 && es[0].kind == 0 && es[0].c == '.'
		_ = ci
		var next []string
		for _, p := range paths {
			dir := p
			if dir == "" {
				dir = "."
			}
			var names []string
			if literal {
				names = []string{lit.String()}
			} else {
				ents, err := os.ReadDir(dir)
				if err != nil {
					continue
				}
				cand := []string{".", ".."}
				for _, e := range ents {
					cand = append(cand, e.Name())
				}
				for _, n := range cand {
					if strings.HasPrefix(n, ".") && !leadingDot {
						continue
					}
					if matchWhole(es, []rune(n)) {
						names = append(names, n)
					}
				}
			}
			for _, n := range names {
				full := p + n
				if _, err := os.Lstat(full); err != nil {
					continue
				}
				if c.sep != "" {
					fi, err := os.Stat(full)
					if err != nil || !fi.IsDir() {
						continue
					}
				}
				next = append(next, full+c.sep)
			}
		}
		paths = next
		if len(paths) == 0 {
			return nil, ""
		}
	}
	sort.Strings(paths)
	// no duplicates by construction of distinct names; keep the check anyway
	var out []string
	for i, p := range paths {
		if i == 0 || p != paths[i-1] {
			out = append(out, p)
		}
	}
	return out, ""
}

func c16Judge(root, pat string) (detail string, nontrivial, skipped bool) {
	real := strings.ReplaceAll(pat, "@ROOT@", root)
	want, skip := c16Model(real)
	var got []string
	var err error
	var pan interface{}
	func() {
		defer func() { pan = recover() }()
		got, err = pattern.Glob(real)
	}()
	if pan != nil {
		return fmt.Sprintf("Glob(%q) panicked: %v", pat, pan), true, false
	}
	if skip != "" {
		return "", false, true
	}
	if err != nil {
		return fmt.Sprintf("Glob(%q) fails with %v; the model expects %q", pat, err, want), true, false
	}
	nontrivial = len(want) > 0
	if len(got) == 0 && len(want) == 0 {
		return "", false, false
	}
	if !reflect.DeepEqual(got, want) {
		// diagnose
		why := "differs from the walk of the file system"
		if !sort.StringsAreSorted(got) {
			why = "is not in ascending byte order"
		}
		for _, g := range got {
			if _, e := os.Lstat(g); e != nil {
				why = fmt.Sprintf("contains %q, which does not exist (%v)", g, e)
				break
			}
		}
		return fmt.Sprintf("Glob(%q) = %q %s; expected %q", pat, got, why, want), true, false
	}
	return "", nontrivial, false
}

func c16Trees(thorough bool) [][]c16Entry {
	names := []string{"a", "b", "ab", ".a", "*", "a.b", "é", "\\", "a\\b"}
	var trees [][]c16Entry
	trees = append(trees, nil)
	for i, n1 := range names {
		for _, k1 := range c16Kinds {
			trees = append(trees, []c16Entry{{n1, k1}})
			for j := i + 1; j < len(names); j++ {
				for _, k2 := range c16Kinds {
					trees = append(trees, []c16Entry{{n1, k1}, {names[j], k2}})
				}
			}
		}
	}
	kinds3 := []string{"file", "dirAB", "linkdir"}
	if thorough {
		kinds3 = []string{"file", "dir0", "dirAB", "dangling", "linkdir"}
	}
	for i := range names {
		for j := i + 1; j < len(names); j++ {
			for k := j + 1; k < len(names); k++ {
				for _, k1 := range kinds3 {
					for _, k2 := range kinds3 {
						for _, k3 := range kinds3 {
							trees = append(trees, []c16Entry{{names[i], k1}, {names[j], k2}, {names[k], k3}})
						}
					}
				}
			}
		}
	}
	return trees
}

func c16Patterns(thorough bool) []string {
	n := 3
	if thorough {
		n = 4
	}
	var pats []string
	genRunes([]rune("ab*?[]./\\"), n, func(p []rune) {
		// absolute patterns are explored under the scratch root only (@ROOT@ below): the
		// system's own / (with /proc) is not under the check's control
		if len(p) > 0 && p[0] == '/' || len(p) > 1 && p[0] == '\\' && p[1] == '/' {
			return
		}
		pats = append(pats, string(p))
	})
	// absolute variants and a few longer shapes
	genRunes([]rune("a*?./"), 2, func(p []rune) { pats = append(pats, "@ROOT@/"+string(p)) })
	pats = append(pats, "*/*", "*/a", "*/*/", ".*/a", "*//a", "*/./a", "a*/../*", "[ab]*/[ab]", "\\*", "*\\/a", "@ROOT@//*", "@ROOT@/*/a", "é", "?", "[!a]*", "a.b/*", "*.b", "*/a.b", "*/.a", "*/.*")
	// an absolute pattern whose leading separator is written escaped
	pats = append(pats, "\\@ROOT@/*", "\\@ROOT@/a", "\\@ROOT@/*/a", "\\@ROOT@")
	// escaped characters inside a component that is followed by further components (two levels; the escape may stand
	// before, between or after ordinary and pattern characters)
	for _, first := range []string{"\\*", "\\a", "a\\b", "\\a\\b", "?\\b", "\\a*", "*\\b", "a\\.b", "\\.a", "[a]\\b", "\\é"} {
		for _, rest := range []string{"a", "*", "?", "\\a", ".a", "*/"} {
			pats = append(pats, first+"/"+rest, "@ROOT@/"+first+"/"+rest)
		}
		pats = append(pats, first+"\\/a", first+"//a")
	}
	return pats
}

// c16BuildBig builds the large tree: 12 files a0…a11, .h and 12 directories d0…d11 per level, a hidden directory .d at the top, d1/d1/d1/d1 four levels deep.
func c16BuildBig(base string) (string, bool) {
	root := filepath.Join(base, "big")
	os.RemoveAll(root)
	ok := true
	mk := func(dir string) {
		if os.MkdirAll(dir, 0o755) != nil {
			ok = false
		}
		for i := 0; i < 12; i++ {
			if os.WriteFile(filepath.Join(dir, fmt.Sprintf("a%d", i)), nil, 0o644) != nil {
				ok = false
			}
		}
		os.WriteFile(filepath.Join(dir, ".h"), nil, 0o644)
	}
	mk(root)
	for i := 0; i < 12; i++ {
		mk(filepath.Join(root, fmt.Sprintf("d%d", i)))
	}
	mk(filepath.Join(root, ".d")) // a hidden directory (with its own hidden file)
	mk(filepath.Join(root, "d1", "d1"))
	mk(filepath.Join(root, "d1", "d1", "d1"))
	mk(filepath.Join(root, "d1", "d1", "d1", "d1"))
	return root, ok
}

func c16Run(w *W) {
	base := filepath.Join(verifDir, "tmp", fmt.Sprintf("c16-%d", os.Getpid()))
	if err := os.MkdirAll(base, 0o755); err != nil {
		w.Note("cannot create scratch directory: " + err.Error())
		w.res.Incomplete = true
		return
	}
	defer os.RemoveAll(base)
	pats := c16Patterns(w.thorough())
	for _, tree := range c16Trees(w.thorough()) {
		if !w.Mine() {
			continue
		}
		if w.TimeUp() {
			break
		}
		root, err := c16Build(base, tree)
		if err != nil {
			w.Note("cannot build tree: " + err.Error())
			w.res.Incomplete = true
			continue
		}
		w.Count("states", 1)
		w.Announce(fmt.Sprint(tree))
		for _, p := range pats {
			w.Count("evaluations", 1)
			w.Count("transitions", 1)
			d, nt, skipped := c16Judge(root, p)
			if skipped {
				w.Count("skipped_unspecified_component", 1)
				continue
			}
			w.Count("traces_validated_against_impl", 1)
			if nt {
				w.Count("distinct_nontrivial", 1)
				w.Sample(c16Case{tree, p})
			}
			if d != "" {
				w.Violation("", c16Case{tree, p}, d)
			}
		}
	}
	// a large tree: 12 files and 12 directories per level (names above a9 sort before a2), four levels deep
	if w.Mine() {
		root, ok := c16BuildBig(base)
		if ok && os.Chdir(root) == nil {
			w.Count("states", 1)
			w.Announce("large tree")
			for _, p := range []string{"*", "a*", "a?", "a??", "a1*", "a1?", "a[0-9]", "a1[0-9]", "[ad]*", "d*", "d*/", "d*/a*", "d1/*", "*/*", "*/a1?", "*/*/*", "*/*/*/*", "*/*/*/*/*", "d1/d1/d1/d1/*", "d?/d?/d?/d?/a1*", "*/*/*/*/*/*",
				"d1*/a2", "d[0-9]/.h", "*/.*", "@ROOT@/*", "@ROOT@/d1/*/a1?", "d1//d1///a*", "./d1/./a*", "d1/../a1*", "*1", "*1/", "*1/*1", "?1*",
				// a component that begins with a literal period followed by components that do not (and the reverse)
				".d*/*", ".d*/.*", ".d?/*", ".[d]*/*", ".d*/*/", ".d*/a1?", ".d/*", "*/.d*", ".d*/../*", "d1/.h*/*", ".d*/.h*"} {
				w.Count("evaluations", 1)
				w.Count("large_tree_patterns", 1)
				d, nt, skipped := c16Judge(root, p)
				if skipped {
					continue
				}
				w.Count("traces_validated_against_impl", 1)
				if nt {
					w.Count("distinct_nontrivial", 1)
				}
				if d != "" {
					w.Violation("", c16Case{[]c16Entry{{"large tree: 12 files a0…a11, .h and 12 directories d0…d11 per level, a hidden directory .d at the top, d1/d1/d1/d1 four levels deep", "dir"}}, p}, d)
				}
			}
		}
	}
	os.Chdir("/")
}

func init() {
	register(&check{
		id:    "C16",
		level: "model_checking",
		rule: "every tree with ≤ 2 entries over names {a b ab .a * a.b é \\ a\\b} × kinds {file, empty dir, dir{a}, dir{.a}, dir{a,b,a.b}, dangling symlink, symlink to a directory} and every 3-entry tree over a reduced kind set, " +
			"× every pattern ≤ 3 (quick) / 4 (thorough) symbols over {a b * ? [ ] . / \\} plus absolute and multi-level shapes; non-trivial = the model expects at least one path",
		assume: []string{"Lstat/Stat/ReadDir of the scratch tree are taken as facts; matching, hidden-file rule, directory-only rule and ordering are the model's",
			"patterns with a component that is not a well-formed pattern (unterminated bracket, trailing backslash) are only required not to panic",
			"'.' and '..' are candidates for components that begin with a literal period (they exist and match)"},
		run: c16Run,
		replay: func(raw json.RawMessage) error {
			var c c16Case
			if err := json.Unmarshal(raw, &c); err != nil {
				return err
			}
			base := filepath.Join(os.TempDir(), fmt.Sprintf("c16-replay-%d", os.Getpid()))
			os.MkdirAll(base, 0o755)
			defer os.RemoveAll(base)
			var root string
			if len(c.Tree) == 1 && strings.HasPrefix(c.Tree[0].Name, "large tree") {
				r, ok := c16BuildBig(base)
				if !ok || os.Chdir(r) != nil {
					return fmt.Errorf("cannot build the large tree")
				}
				root = r
			} else {
				r, err := c16Build(base, c.Tree)
				if err != nil {
					return err
				}
				root = r
			}
			defer os.Chdir("/")
			if d, _, _ := c16Judge(root, c.Pattern); d != "" {
				return fmt.Errorf("%s", d)
			}
			return nil
		},
	})
}
