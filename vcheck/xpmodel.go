package main

// Reference model of word expansion (XCU 2.6.2 parameter expansion table,
// $@ / $*, nounset, field splitting as the C14 statement words it, quote
// removal).  It walks the real AST so that the source text is parsed by the
// real parser, but computes the result independently of interp.Expand.

import (
	"fmt"
	"strconv"
	"strings"
	"unicode/utf8"

	"github.com/hattya/go.sh/ast"
)

type xpPiece struct {
	s string
	q bool
}

type xpField struct {
	p []xpPiece
	// brk: a hard field boundary precedes this field ("$@")
}

type xpState struct {
	vars    map[string]string
	args    []string // args[0] = $0
	nounset bool
	optstr  string // value of $-
	// gray is set when the model meets a construct whose result POSIX (or the
	// property) leaves open; the caller then only checks "no panic".
	gray string
}

type xpError struct{ msg string }

func (e xpError) Error() string { return e.msg }

func (st *xpState) ifs() (string, bool) {
	v, ok := st.vars["IFS"]
	if !ok {
		return " \t\n", false
	}
	return v, true
}

func (st *xpState) sep() string {
	v, ok := st.vars["IFS"]
	if !ok {
		return " "
	}
	if v == "" {
		return ""
	}
	_, w := utf8.DecodeRuneInString(v)
	return v[:w]
}

// lookup returns the value list of a parameter, whether it is set, and whether it is null.
func (st *xpState) lookup(name string) (a []string, set, null bool) {
	switch name {
	case "@", "*":
		a = append([]string{}, st.args[1:]...)
		if len(a) == 0 {
			return nil, true, true
		}
		if len(a) == 1 && a[0] == "" {
			return a, true, true
		}
		return a, true, false
	case "#":
		return []string{strconv.Itoa(len(st.args) - 1)}, true, false
	case "?":
		return []string{"0"}, true, false
	case "0":
		return []string{st.args[0]}, true, st.args[0] == ""
	case "-":
		if st.optstr == "" {
			st.gray = "$- with no option set (set-but-null or unset is not fixed by POSIX)"
			return []string{""}, true, true
		}
		return []string{st.optstr}, true, false
	case "!":
		return nil, false, true
	case "$":
		st.gray = "$$ (process id)"
		return []string{"1"}, true, false
	}
	if c20Positional(name) {
		i, _ := strconv.Atoi(name)
		if i < len(st.args) {
			return []string{st.args[i]}, true, st.args[i] == ""
		}
		return nil, false, true
	}
	v, ok := st.vars[name]
	if !ok {
		return nil, false, true
	}
	return []string{v}, true, v == ""
}

// expandWord expands w into fields of pieces (before field splitting).
// dq: inside double quotes.
func (st *xpState) expandWord(w ast.Word, dq bool) ([]xpField, error) {
	fields := []xpField{{}}
	cur := func() *xpField { return &fields[len(fields)-1] }
	for _, part := range w {
		switch p := part.(type) {
		case *ast.Lit:
			cur().p = append(cur().p, xpPiece{p.Value, dq})
		case *ast.Quote:
			switch p.Tok {
			case `\`, `'`:
				s := ""
				if len(p.Value) > 0 {
					s = p.Value[0].(*ast.Lit).Value
				}
				cur().p = append(cur().p, xpPiece{s, true})
			case `"`:
				// a quoted part always contributes to its field, even when empty;
				// "$@" with no positional parameters is the exception: zero fields
				if pe, ok := onlyPart(p.Value); !(ok && pe.Name.Value == "@" && pe.Op == "" && len(st.args) == 1) {
					cur().p = append(cur().p, xpPiece{"", true})
				}
				in, err := st.expandWord(p.Value, true)
				if err != nil {
					return nil, err
				}
				cur().p = append(cur().p, in[0].p...)
				fields = append(fields, in[1:]...)
			}
		case *ast.ParamExp:
			in, err := st.expandParam(p, dq)
			if err != nil {
				return nil, err
			}
			if len(in) > 0 {
				cur().p = append(cur().p, in[0].p...)
				fields = append(fields, in[1:]...)
			}
		case *ast.ArithExp, *ast.CmdSubst:
			st.gray = "arithmetic expansion / command substitution inside the word"
		}
	}
	return fields, nil
}

func xpValueFields(a []string, q bool) []xpField {
	var out []xpField
	for _, s := range a {
		out = append(out, xpField{p: []xpPiece{{s, q}}})
	}
	return out
}

func xpFlatten(fs []xpField) string {
	var b strings.Builder
	for i, f := range fs {
		if i > 0 {
			b.WriteByte(' ')
		}
		for _, p := range f.p {
			b.WriteString(p.s)
		}
	}
	return b.String()
}

// xpPattern renders fields as a pattern: quoted characters match themselves.
func xpPattern(fs []xpField) string {
	var b strings.Builder
	for i, f := range fs {
		if i > 0 {
			b.WriteByte(' ')
		}
		for _, p := range f.p {
			if !p.q {
				b.WriteString(p.s)
				continue
			}
			for _, r := range p.s {
				switch r {
				case '?', '*', '[', '\\', ']', '!', '^', '-':
					b.WriteByte('\\')
				}
				b.WriteRune(r)
			}
		}
	}
	return b.String()
}

func (st *xpState) expandParam(pe *ast.ParamExp, dq bool) ([]xpField, error) {
	name := pe.Name.Value
	a, set, null := st.lookup(name)
	multi := name == "@"
	value := func() []xpField {
		if name == "*" {
			if dq {
				return []xpField{{p: []xpPiece{{strings.Join(a, st.sep()), true}}}}
			}
			return xpValueFields(a, false) // one field per positional parameter, then split
		}
		if multi && len(a) == 0 {
			return nil
		}
		return xpValueFields(a, dq)
	}
	unsetErr := func() error {
		return xpError{"parameter is unset: " + name}
	}
	word := func() ([]xpField, error) { return st.expandWord(pe.Word, dq) }
	if (name == "@" || name == "*") && len(st.args) == 1 && pe.Op != "" && pe.Op != "#" || name == "@" && pe.Op == "#" && pe.Word == nil {
		if strings.HasPrefix(pe.Op, ":") || !strings.ContainsAny(pe.Op, "-=?+") {
			// colon forms treat "no positional parameters" as null: well defined
		} else {
			st.gray = "$@/$* with no positional parameters under a non-colon operator (set or unset is not fixed by POSIX)"
		}
	}
	switch {
	case pe.Op == "":
		if !set && st.nounset {
			return nil, unsetErr()
		}
		return value(), nil
	case pe.Op == "#" && pe.Word == nil:
		if name == "@" || name == "*" {
			st.gray = "${#@} / ${#*} (unspecified)"
			return []xpField{{p: []xpPiece{{"0", dq}}}}, nil
		}
		if !set {
			if st.nounset {
				return nil, unsetErr()
			}
			return []xpField{{p: []xpPiece{{"0", dq}}}}, nil
		}
		return []xpField{{p: []xpPiece{{strconv.Itoa(utf8.RuneCountInString(a[0])), dq}}}}, nil
	}
	colon := strings.HasPrefix(pe.Op, ":")
	useWord := !set || null && colon
	switch strings.TrimPrefix(pe.Op, ":") {
	case "-":
		if useWord {
			return word()
		}
		return value(), nil
	case "=":
		if useWord {
			if c20Special(name) || c20Positional(name) {
				return nil, xpError{"cannot assign in this way: " + name}
			}
			wf, err := word()
			if err != nil {
				return nil, err
			}
			v := xpFlatten(wf)
			if len(wf) > 1 {
				st.gray = "\"$@\" assigned by ${p:=w} (how the fields are joined is unspecified)"
			}
			st.vars[name] = v
			for _, f := range wf {
				for _, p := range f.p {
					if p.q && !dq {
						st.gray = "${p:=w} with a quoted w outside double quotes (whether the substituted value is split is not fixed by the property)"
					}
				}
			}
			return wf, nil
		}
		return value(), nil
	case "?":
		if useWord {
			msg := "parameter is unset or null"
			if len(pe.Word) > 0 {
				wf, err := word()
				if err != nil {
					return nil, err
				}
				msg = xpFlatten(wf)
			}
			return nil, xpError{msg}
		}
		return value(), nil
	case "+":
		if !useWord {
			return word()
		}
		return nil, nil
	case "%", "%%", "#", "##":
		if !set {
			if st.nounset {
				return nil, unsetErr()
			}
			return nil, nil
		}
		if null {
			return nil, nil // "w is expanded only when it is used" (bash agrees; dash expands it)
		}
		wf, err := st.expandWord(pe.Word, false)
		if err != nil {
			return nil, err
		}
		pat := xpPattern(wf)
		es, status := parsePattern([]rune(pat))
		if status != patWellFormed {
			st.gray = "removal pattern is not a well-formed pattern"
			return value(), nil
		}
		prefix := pe.Op[0] == '#'
		smallest := len(pe.Op) == 1
		if name == "*" {
			st.gray = "pattern removal on $* (applied before or after joining is unspecified)"
		}
		var out []string
		for _, s := range a {
			m, ok := refMatch([][]pelem{es}, prefix, smallest, []rune(s))
			if ok {
				if prefix {
					s = s[len(m):]
				} else {
					s = s[:len(s)-len(m)]
				}
			}
			out = append(out, s)
		}
		a = out
		if null {
			return nil, nil
		}
		return value(), nil
	}
	st.gray = "unknown operator " + pe.Op
	return nil, nil
}

// split applies field splitting and quote removal to the expanded fields.
func (st *xpState) split(fs []xpField) []string {
	ifs, _ := st.ifs()
	var out []string
	for _, f := range fs {
		var segs []c14Seg
		for _, p := range f.p {
			segs = append(segs, c14Seg{p.s, p.q})
		}
		out = append(out, c14Ref(segs, ifs, true)...)
	}
	return out
}

func (st *xpState) String() string {
	return fmt.Sprintf("vars=%v args=%q nounset=%v", st.vars, st.args, st.nounset)
}

func onlyPart(w ast.Word) (*ast.ParamExp, bool) {
	if len(w) != 1 {
		return nil, false
	}
	pe, ok := w[0].(*ast.ParamExp)
	return pe, ok
}
