//go:build verif

package main

// C08 — here-document bodies are attached to the right redirection, verbatim.
//
// Space: host templates with 1–3 here-document sites × {<<, <<-} × 4
// delimiter quotings × bodies drawn from a 12-line menu; every program runs
// under the controlled scheduler of E2: all schedules for the one-site
// programs, preemption bound ≤ 1 (which contains both extreme schedules) for
// the others.  Oracle: per redirection, in operator order, print(Heredoc) is
// byte-identical to the body written, Delim is the delimiter line, the body
// is split into expansions iff no part of the delimiter was quoted; the same
// under every schedule.

import (
	"encoding/json"
	"fmt"
	"os"
	"reflect"
	"strconv"
	"strings"

	"github.com/hattya/go.sh/ast"
	"github.com/hattya/go.sh/parser"
)

type c08Site struct {
	Tabs     int      `json:"delimiter_tabs"` // <<- : tabs in front of the delimiter line
	Op       string   `json:"op"`
	DelimSrc string   `json:"delim_src"`
	Delim    string   `json:"delim"`
	Quoted   bool     `json:"quoted"`
	Body     []string `json:"body_lines"`
}

type c08Case struct {
	Template int       `json:"template"`
	Sites    []c08Site `json:"sites"`
	Src      string    `json:"source"`
	Schedule []int     `json:"schedule,omitempty"`
	Syms     []string  `json:"symbols,omitempty"` // generator sentence (second phase): judged against the grammar model
	Layout   string    `json:"layout,omitempty"`
}

// c08GenRender rebuilds the rendered sentence of a generator case.
func c08GenRender(c c08Case) ([]sym, gramResult, rendered) {
	ss := syms(c.Syms...)
	m := gramParse(ss)
	if c.Layout == "multi-line" && m.ok {
		ss = multiLine(ss, m)
		m = gramParse(ss)
	}
	return ss, m, render(ss)
}

// templates: lines of text; @H marks a here-document site
var c08Templates = [][]string{
	// one site
	{"cat @H"}, {"cat @H | b"}, {"a | cat @H"}, {"cat @H && b"}, {"cat @H; b"}, {"{ cat @H; }"}, {"( cat @H )"},
	{"if cat @H; then b; fi"}, {"if a; then cat @H; fi"}, {"while cat @H; do b; done"}, {"for x in a; do cat @H; done"},
	{"case x in a) cat @H ;; esac"}, {"f() { cat @H; }"}, {"{ a; } @H"}, {"if a; then b; fi @H"}, {"echo $(cat @H", ") c"},
	{"cat @H &&", "b"}, {"cat @H |", "b"}, {"3@H cat"}, {"echo `cat @H", "` c"},
	// two sites
	{"cat @H @H"}, {"cat @H | cat @H"}, {"cat @H; cat @H"}, {"{ cat @H; cat @H; }"}, {"if cat @H; then cat @H; fi"}, {"cat @H && cat @H"}, {"{ cat @H", "cat @H", "}"},
	{"{ a; } @H | cat @H"}, {"cat @H | {", "cat @H", "}"},
	// three sites
	{"cat @H @H @H"}, {"cat @H | cat @H | cat @H"}, {"cat @H; { cat @H; } @H"},
	// a substitution that closes while its own here-document (<<Z) is still pending sits next to the site; what
	// <<Z itself receives is left open (POSIX does not say), but it must not disturb the site's body
	{"cat @H $(cat <<Z)"}, {"cat @H `cat <<Z`"}, {"cat $(cat <<Z) @H"}, {"cat @H $(cat <<Z) @H"}, {"cat @H | b $(cat <<Z; c <<Z)"},
	// a comment between the token that lets the command continue on the next line and that newline
	{"cat @H | # c", "b"}, {"cat @H && # c", "b"}, {"case x in a) cat @H ;; # c", "esac"}, {"cat @H | # c", "cat @H"}, {"f() # c", "{ cat @H; }"},
	// a here-document pending at the newline that ends a for header
	{"cat @H | for x in a", "do b; done"}, {"cat @H; for x", "do b; done"}, {"cat @H && for x in a b", "do cat @H; done"},
	// several here-documents pending at a newline inside a grammar linebreak (after | && || ;; and a for header);
	// from here on the two-site templates take the reduced site menu of the three-site ones
	{"cat @H 3@H |", "b"}, {"cat @H @H &&", "b"}, {"cat @H | cat @H ||", "b"}, {"case x in a) cat @H @H ;;", "esac"}, {"cat @H @H | for x in a", "do b; done"},
	{"cat @H @H @H |", "b"},
}

const c08ReducedFrom = 45

func c08Sites(t []string) int {
	n := 0
	for _, l := range t {
		n += strings.Count(l, "@H")
	}
	return n
}

var c08BodyLines = []string{"", "x", "E ", " E", "EE", "\tx", "\tE", "$v", "$(c)", "`c`", "\\$v", "a\\b", "${v}E", "$(c)E", "\\$E", "$1EF", "#x"}

type c08Delim struct {
	src, delim string
	quoted     bool
}

var c08Delims = []c08Delim{{"E", "E", false}, {"'E'", "E", true}, {`"E"`, "E", true}, {`E\F`, "EF", true}, {`E""`, "E", true}, {`''E`, "E", true}}

// c08Render builds the source: after every line the bodies of its sites follow in operator order.
func c08Render(t []string, sites []c08Site) string {
	var b strings.Builder
	k := 0
	for _, line := range t {
		var pending []c08Site
		for strings.Contains(line, "@H") {
			s := sites[k]
			k++
			line = strings.Replace(line, "@H", s.Op+s.DelimSrc, 1)
			pending = append(pending, s)
		}
		b.WriteString(line + "\n")
		for _, s := range pending {
			for _, bl := range s.Body {
				b.WriteString(bl + "\n")
			}
			if s.Op == "<<-" {
				b.WriteString(strings.Repeat("\t", s.Tabs))
			}
			b.WriteString(s.Delim + "\n")
		}
	}
	return b.String()
}

func collectRedirs(v interface{}) []*ast.Redir {
	var out []*ast.Redir
	walkNodes(reflect.ValueOf(v), func(n ast.Node) {
		if r, ok := n.(*ast.Redir); ok && (r.Op == "<<" || r.Op == "<<-") {
			out = append(out, r)
		}
	}, nil)
	return out
}

func mergeLits(w ast.Word) ast.Word {
	var out ast.Word
	for _, p := range w {
		if l, ok := p.(*ast.Lit); ok && len(out) > 0 {
			if pl, ok := out[len(out)-1].(*ast.Lit); ok {
				out[len(out)-1] = &ast.Lit{Value: pl.Value + l.Value}
				continue
			}
		}
		out = append(out, p)
	}
	return out
}

// c08Check judges the parse result of one program; "" if fine.
func c08Check(c c08Case, cmds []ast.Command, err error) string {
	if err != nil {
		return fmt.Sprintf("the program is rejected: %v", err)
	}
	var rs []*ast.Redir
	for _, r := range collectRedirs(cmds) {
		if d, _ := printNode(r.Word); d != "Z" { // <<Z: see c08Templates
			rs = append(rs, r)
		}
	}
	if len(rs) != len(c.Sites) {
		return fmt.Sprintf("%d here-document redirections in the AST, the source has %d", len(rs), len(c.Sites))
	}
	for i, r := range rs {
		s := c.Sites[i]
		if r.Op != s.Op {
			return fmt.Sprintf("redirection %d has operator %q, the source has %q (order of attachment)", i, r.Op, s.Op)
		}
		want := ""
		for _, bl := range s.Body {
			want += bl + "\n"
		}
		got, ok := printNode(r.Heredoc)
		if len(r.Heredoc) == 0 {
			got, ok = "", true
		}
		if !ok || got != want {
			return fmt.Sprintf("redirection %d (%s%s): body is %q, the source has %q", i, s.Op, s.DelimSrc, got, want)
		}
		wd := s.Delim
		if s.Op == "<<-" {
			wd = strings.Repeat("\t", s.Tabs) + wd
		}
		if gd, _ := printNode(r.Delim); gd != wd {
			return fmt.Sprintf("redirection %d (%s%s): Delim is %q, the delimiter line is %q", i, s.Op, s.DelimSrc, gd, wd)
		}
		// scanned for expansions iff no part of the delimiter was quoted
		var exp ast.Word
		if want != "" {
			if s.Quoted {
				exp = ast.Word{wLit(want)}
			} else {
				exp = hereParts(want)
			}
		}
		if g, e := dumpAST(mergeLits(r.Heredoc), false), dumpAST(mergeLits(exp), false); g != e && !(len(r.Heredoc) == 0 && len(exp) == 0) {
			return fmt.Sprintf("redirection %d (%s%s, delimiter quoted=%v): body parts are %s, expected %s", i, s.Op, s.DelimSrc, s.Quoted, g, e)
		}
	}
	return ""
}

func c08Body(c c08Case) func(afterReturn *bool) string {
	if len(c.Syms) > 0 {
		ss, m, r := c08GenRender(c)
		return func(afterReturn *bool) string {
			rd := &lateReader{r: strings.NewReader(r.src), afterReturn: afterReturn}
			cmds, comments, err := parser.ParseCommands(nil, "t", rd)
			if _, d := c02Judge(ss, m, r, parseObs{cmds: cmds, comments: comments, err: err}); d != "" {
				return "BAD: " + d
			}
			return fmt.Sprintf("OK consumed=%d %s", len(r.src)-rd.r.Len(), dumpAST(cmds, true))
		}
	}
	return func(afterReturn *bool) string {
		rd := &lateReader{r: strings.NewReader(c.Src), afterReturn: afterReturn}
		cmds, _, err := parser.ParseCommands(nil, "t", rd)
		if d := c08Check(c, cmds, err); d != "" {
			return "BAD: " + d
		}
		return fmt.Sprintf("OK consumed=%d %s", len(c.Src)-rd.r.Len(), dumpAST(cmds, true))
	}
}

func c08Explore(w *W, c c08Case, bound int, maxExec int) {
	w.Announce(c.Src)
	sum := c06Explore(c08Body(c), bound, maxExec)
	w.Count("evaluations", int64(sum.executions))
	w.Count("schedules", int64(sum.executions))
	w.Count("states", 1)
	w.Count("transitions", sum.transitions)
	w.Count("traces_validated_against_impl", int64(sum.executions))
	w.Count("distinct_nontrivial", 1)
	if !sum.complete {
		w.Count("inputs_capped", 1)
		w.res.Incomplete = true
	}
	w.Sample(map[string]interface{}{"source": c.Src, "schedules": sum.executions})
	cc := func(s []int) c08Case { x := c; x.Schedule = s; return x }
	switch {
	case sum.blocked != nil:
		w.Violation("blocked", cc(sum.blocked), fmt.Sprintf("%q: a goroutine is blocked in an operation the scheduler does not own", c.Src))
	case sum.deadlock != nil:
		w.Violation("deadlock", cc(sum.deadlock), fmt.Sprintf("%q: deadlock between the lexer and the parser (here-document queue)", c.Src))
	}
	for o, s := range sum.outcomes {
		if strings.HasPrefix(o, "BAD: ") {
			w.Violation("", cc(s), fmt.Sprintf("%q under schedule %v: %s", c.Src, s, o[5:]))
			return
		}
	}
	if len(sum.outcomes) > 1 {
		var obs []string
		for o := range sum.outcomes {
			obs = append(obs, o)
		}
		w.Violation("schedule-dependent", cc(sum.outcomes[obs[0]]), fmt.Sprintf("%q: %d different results over %d schedules, e.g. %.200s vs %.200s", c.Src, len(obs), sum.executions, obs[0], obs[1]))
	}
	if sum.aliveOK != nil || sum.postOK != nil || sum.stuck != nil {
		w.Violation("activity-after-return", cc(sum.aliveOK), fmt.Sprintf("%q: a goroutine is still running / active / stuck after the successful return", c.Src))
	}
}

func c08Run(w *W) {
	installHooks()
	maxExec := 5000
	var bodies1, bodies2 [][]string
	bodies1 = append(bodies1, nil)
	for _, a := range c08BodyLines {
		bodies1 = append(bodies1, []string{a})
	}
	bodies2 = append(bodies2, bodies1...)
	for _, a := range c08BodyLines {
		for _, b := range c08BodyLines {
			bodies2 = append(bodies2, []string{a, b})
		}
	}
	ops := []string{"<<", "<<-"}
	mk := func(op string, d c08Delim, body []string) (c08Site, bool) {
		for _, l := range body {
			if op == "<<-" && strings.TrimLeft(l, "\t") == d.delim {
				return c08Site{}, false // that line would be the delimiter
			}
			if op == "<<" && l == d.delim {
				return c08Site{}, false
			}
		}
		return c08Site{1, op, d.src, d.delim, d.quoted, body}, true
	}
	for ti, t := range c08Templates {
		if only := os.Getenv("VCHECK_C08_TEMPLATE"); only != "" && only != strconv.Itoa(ti) {
			continue // (debugging aid: one template only)
		}
		n := c08Sites(t)
		var choices [][]c08Site
		switch n {
		case 1:
			bs := bodies2
			if !w.thorough() && ti >= 4 {
				bs = bodies1 // quick tier: two-line bodies for the first four templates only
			}
			for _, op := range ops {
				for _, d := range c08Delims {
					for _, b := range bs {
						if s, ok := mk(op, d, b); ok {
							choices = append(choices, []c08Site{s})
							if op == "<<-" && len(b) <= 1 {
								for _, tabs := range []int{0, 2, 3} {
									s2 := s
									s2.Tabs = tabs
									choices = append(choices, []c08Site{s2})
								}
							}
						}
					}
				}
			}
		case 2:
			var per []c08Site
			bs := bodies1
			for _, op := range ops {
				for _, d := range c08Delims[:4] { // (the delimiters with empty quotes: one-site programs only)
					for _, b := range bs {
						if !w.thorough() && len(b) == 1 && (b[0] == "EE" || b[0] == " E" || b[0] == "a\\b" || b[0] == "`c`" || b[0] == "$(c)E" || b[0] == "\\$E" || b[0] == "$1EF" || b[0] == "#x") {
							continue
						}
						if s, ok := mk(op, d, b); ok {
							per = append(per, s)
						}
					}
				}
			}
			if ti >= c08ReducedFrom {
				per = per[:0]
				for _, op := range ops {
					for _, d := range c08Delims[:2] {
						for _, b := range [][]string{{"x"}, {"$v"}, nil} {
							if s, ok := mk(op, d, b); ok {
								per = append(per, s)
							}
						}
					}
				}
			}
			for _, a := range per {
				for _, b := range per {
					choices = append(choices, []c08Site{a, b})
				}
			}
		default:
			var per []c08Site
			for _, op := range ops {
				for _, d := range c08Delims[:2] {
					for _, b := range [][]string{{"x"}, {"$v"}} {
						s, _ := mk(op, d, b)
						if op == "<<-" && len(per)%2 == 1 {
							s.Tabs = 2
						}
						per = append(per, s)
					}
				}
			}
			for _, a := range per {
				for _, b := range per {
					for _, c := range per {
						choices = append(choices, []c08Site{a, b, c})
					}
				}
			}
		}
		for _, sites := range choices {
			if !w.Mine() || w.TimeUp() {
				continue
			}
			c := c08Case{Template: ti, Sites: sites}
			c.Src = c08Render(t, sites)
			bound := -1
			if n > 1 {
				bound = 1
			}
			c08Explore(w, c, bound, maxExec)
		}
	}
	// many here-documents: n = 4 … 12 sites on one line, on n lines of a group, and one per pipeline stage; each body
	// names its site, so a body attached to the wrong operator shows; every schedule with ≤ 1 preemption
	for n := 4; n <= 12; n++ {
		if !w.Mine() || w.TimeUp() {
			continue
		}
		var sites []c08Site
		for i := 0; i < n; i++ {
			op, d := "<<", c08Delims[i%2]
			if i%3 == 2 {
				op = "<<-"
			}
			s, _ := mk(op, d, []string{fmt.Sprintf("body%d $v", i)})
			sites = append(sites, s)
		}
		var group []string
		group = append(group, "{")
		for i := 0; i < n; i++ {
			group = append(group, "cat @H")
		}
		group = append(group, "}")
		for ti, t := range [][]string{{"cat" + strings.Repeat(" @H", n)}, group, {"cat @H" + strings.Repeat(" | cat @H", n-1)}} {
			c := c08Case{Template: -2 - ti, Sites: sites}
			c.Src = c08Render(t, sites)
			w.Count("many_site_programs", 1)
			c08Explore(w, c, 1, maxExec)
		}
	}
	// second phase: every sentence of the derivation generator that carries a here-document (lists of leaves, every
	// compound form with here-documents in conditions and bodies, a here-document earlier on the line than a compound
	// command, closers directly after a redirected compound), in one-line and multi-line layout, under every schedule
	// with ≤ 1 preemption; the oracle is the grammar model's AST (bodies attached to their operators)
	seen := map[string]bool{}
	derivations(w.thorough(), func(name string, texts []string) {
		if name == "WN" || name == "WG" || name == "W" || name == "D3" || (name == "D2" || name == "DC") && !w.thorough() {
			return
		}
		if !hasHere(syms(texts...)) {
			return
		}
		key := strings.Join(texts, "\x00")
		if seen[key] || !w.Mine() || w.TimeUp() {
			seen[key] = true
			return
		}
		seen[key] = true
		for _, lay := range []string{"one-line", "multi-line"} {
			c := c08Case{Template: -1, Syms: append(append([]string{}, texts...), "\n"), Layout: lay}
			ss, m, r := c08GenRender(c)
			if !m.ok || m.dontcare != "" || lexicallyEntangled(ss) || lay == "multi-line" && r.src == render(syms(c.Syms...)).src {
				continue
			}
			c.Src = r.src
			w.Count("generator_sentences_with_here_documents", 1)
			c08Explore(w, c, 1, maxExec)
		}
	})
}

func init() {
	register(&check{
		id:    "C08",
		level: "model_checking",
		rule: "51 host templates with 1–3 here-document sites (simple command, both sides of a pipe, lists, every compound form, function body, compound redirection, inside $( ) and backquotes, before && / | + newline, numbered, several on one line and on different lines, several pending at a newline inside a linebreak) × {<<, <<- with 0–3 tabs before the delimiter line} × delimiters {E, 'E', \"E\", E\\F} × bodies from the 17-line menu " +
			"{empty, x, 'E ', ' E', EE, tab+x, tab+E, $v, $(c), `c`, \\$v, a\\b, ${v}E, $(c)E, \\$E, $1EF, #x} (one-site: all sequences ≤ 2 lines; two sites: ≤ 1 line each; three sites: 8 variants each); every program under ALL schedules of the lexer/parser pair (one site) or all schedules with ≤ 1 preemption (more sites); second phase: every sentence of the derivation generator that carries a here-document (D0, D1, DH; thorough D2, DC) in one-line and multi-line layout under all schedules with ≤ 1 preemption, judged against the grammar model's AST",
		assume: []string{"backslash-newline inside bodies is outside the alphabet (POSIX removes it, 'byte for byte' cannot be demanded there)", "scheduler as in C06 (e2.go)"},
		run:    c08Run,
		replay: func(raw json.RawMessage) error {
			var c c08Case
			if err := json.Unmarshal(raw, &c); err != nil {
				return err
			}
			installHooks()
			r := runOnce(c.Schedule, c08Body(c))
			fmt.Printf("%q under schedule %v: %s\n  steps: %s\n", c.Src, c.Schedule, r.obs, traceString(r))
			if strings.HasPrefix(r.obs, "BAD") || r.deadlock || r.blocked {
				return fmt.Errorf("%s", r.obs)
			}
			return nil
		},
	})
}

func init() {
	if c08Templates[c08ReducedFrom][0] != "cat @H 3@H |" {
		for i, t := range c08Templates {
			if t[0] == "cat @H 3@H |" {
				panic(fmt.Sprintf("c08ReducedFrom must be %d", i))
			}
		}
	}
}
