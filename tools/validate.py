#!/usr/bin/env python3
import json,jsonschema,sys,glob
m=json.load(open('/verif/MANIFEST.json'))
jsonschema.validate(m,json.load(open('/root/.vp/MANIFEST.schema.json')))
sch=json.load(open('/root/.vp/EVIDENCE.schema.json'))
ok=True
for c in m['checks']:
    f=c['evidence_file']
    try:
        e=json.load(open(f)); jsonschema.validate(e,sch)
        cov=e['coverage']
        print(c['property_id'],e['tier'],e['level'],'eval',cov.get('evaluations'),'nontriv',cov.get('distinct_nontrivial'),'states',cov.get('states'),'exh',cov.get('exhaustive'),'wall',e['wall_s'],'viol',e.get('violations'))
    except Exception as ex:
        ok=False; print(c['property_id'],'EVIDENCE INVALID',str(ex)[:200])
print('manifest valid; evidence', 'ok' if ok else 'PROBLEMS')
