package main

// C10 — a failing source reader is reported as that failure, never as success.
//
// Single-fault enumeration: for every accepted sentence and every rune index
// k ∈ [0, len] the reader starts failing at k (io.RuneScanner: ReadRune at
// offset ≥ k fails; io.Reader: the bytes before k are delivered, then Read
// fails).

import (
	"encoding/json"
	"errors"
	"fmt"
	"io"
	"strings"
	"unicode/utf8"

	"github.com/hattya/go.sh/parser"
)

var errRead = errors.New("sentinel read error")

// errReadEOF is a read error that is not io.EOF but wraps it (errors.Is(err, io.EOF) holds): "an error other than
// io.EOF" all the same — the source did not end, the connection did
var errReadEOF = fmt.Errorf("connection lost: %w", io.EOF)

// faultScanner fails every ReadRune at rune offset ≥ k.
type faultScanner struct {
	rs        []rune
	off, k    int
	delivered bool
	lastW     int
	once      bool // transient fault: only the first read at offset k fails
	err       error
}

func (f *faultScanner) ReadRune() (rune, int, error) {
	if f.off >= f.k && !(f.once && f.delivered) {
		f.delivered = true
		f.lastW = 0
		if f.err != nil {
			return 0, 0, f.err
		}
		return 0, 0, errRead
	}
	if f.off >= len(f.rs) {
		f.lastW = 0
		return 0, 0, io.EOF
	}
	r := f.rs[f.off]
	f.off++
	f.lastW = 1
	return r, utf8.RuneLen(r), nil
}

func (f *faultScanner) UnreadRune() error {
	if f.off > 0 && f.lastW == 1 {
		f.off--
		f.lastW = 0
	}
	return nil
}

// faultReader delivers the first k bytes, then fails.
type faultReader struct {
	b         []byte
	off, k    int
	delivered bool
	err       error
}

func (f *faultReader) Read(p []byte) (int, error) {
	if f.off >= f.k {
		f.delivered = true
		if f.err != nil {
			return 0, f.err
		}
		return 0, errRead
	}
	n := copy(p, f.b[f.off:f.k])
	f.off += n
	return n, nil
}

type c10Case struct {
	Src  string `json:"source"`
	K    int    `json:"fault_at"`
	Kind string `json:"reader"`
	Wrap bool   `json:"error_wraps_eof,omitempty"`
	Byte bool   `json:"fault_at_is_byte_offset,omitempty"` // io.Reader only: K counts bytes (a fault inside a multi-byte character)
}

type c10Ref struct {
	dump          string
	consumed      int // runes the fault-free parse consumes
	consumedBytes int
}

func c10Judge(c c10Case, ref c10Ref) string {
	rs := []rune(c.Src)
	var src interface{}
	var fs *faultScanner
	var fr *faultReader
	sentinel := errRead
	if c.Wrap {
		sentinel = errReadEOF
	}
	if c.Kind == "RuneScanner" {
		fs = &faultScanner{rs: rs, k: c.K, err: sentinel}
		src = fs
	} else {
		kb := c.K
		if !c.Byte {
			kb = len(string(rs[:c.K]))
		}
		fr = &faultReader{b: []byte(c.Src), k: kb, err: sentinel}
		src = fr
	}
	inside := c.K < ref.consumed
	if c.Byte {
		inside = c.K < ref.consumedBytes
	}
	var d string
	var err error
	var pan interface{}
	func() {
		defer func() { pan = recover() }()
		cmds, _, e := parser.ParseCommands(nil, "t", src)
		err = e
		d = dumpAST(cmds, false)
		if len(cmds) == 0 {
			d = "[]"
		}
	}()
	quiesce()
	if pan != nil {
		return fmt.Sprintf("panic: %v", pan)
	}
	delivered := fs != nil && fs.delivered
	switch {
	case err == nil && delivered:
		return fmt.Sprintf("ReadRune returned the sentinel error (reader failing from rune %d) but ParseCommands returns a nil error (%s)", c.K, d)
	case err == nil && inside:
		return fmt.Sprintf("the reader fails from rune %d, inside the %d runes of the command, yet ParseCommands returns a nil error (%s)", c.K, ref.consumed, d)
	case err == nil && d != ref.dump:
		return fmt.Sprintf("nil error with a result built from truncated input: %s instead of %s", d, ref.dump)
	case err != nil && !errors.Is(err, sentinel):
		return fmt.Sprintf("the reader fails from rune %d with the sentinel error %q, ParseCommands reports %q instead (not errors.Is the read error)", c.K, sentinel, err.Error())
	}
	return ""
}

func c10Sentence(w *W, src string) {
	o := runParse(src)
	if o.err != nil || o.pan != nil {
		return
	}
	d := dumpAST(o.cmds, false)
	if len(o.cmds) == 0 {
		d = "[]"
	}
	ref := c10Ref{dump: d, consumed: len([]rune(src[:len(src)-o.rest])), consumedBytes: len(src) - o.rest}
	w.Announce(src)
	w.Count("states", 1)
	w.Count("distinct_nontrivial", 1)
	w.Sample(map[string]string{"source": src})
	// io.Reader: byte offsets inside multi-byte characters (the reader fails with half a character delivered)
	for kb := 1; kb < len(src); kb++ {
		if utf8.RuneStart(src[kb]) {
			continue
		}
		c := c10Case{Src: src, K: kb, Kind: "Reader", Byte: true}
		w.Count("evaluations", 1)
		w.Count("transitions", 1)
		w.Count("faults_inside_a_character", 1)
		w.Count("traces_validated_against_impl", 1)
		if d := c10Judge(c, ref); d != "" {
			w.Violation(c10Class(c, d), c, fmt.Sprintf("ParseCommands(%q) [io.Reader failing after %d bytes, inside a character]: %s", src, kb, d))
		}
	}
	n := len([]rune(src))
	for k := 0; k <= n; k++ {
		for _, kind := range []string{"RuneScanner", "Reader", "RuneScanner/wraps-EOF"} {
			c := c10Case{Src: src, K: k, Kind: strings.TrimSuffix(kind, "/wraps-EOF"), Wrap: strings.HasSuffix(kind, "/wraps-EOF")}
			w.Count("evaluations", 1)
			w.Count("transitions", 1)
			w.Count("traces_validated_against_impl", 1)
			if d := c10Judge(c, ref); d != "" {
				w.Violation(c10Class(c, d), c, fmt.Sprintf("ParseCommands(%q) [%s]: %s", src, kind, d))
			}
		}
	}
}

// c10Class attributes one shape to a known finding: an io.Reader that fails with half of a multi-byte character
// delivered, that character being the first of a parameter name directly after "${": bufio hands the orphaned byte
// out as U+FFFD before it reports the error, and the lexer rejects U+FFFD as a name ("invalid parameter expansion")
// without reading further.  Every other replacement of a read error stays a violation.
func c10Class(c c10Case, d string) string {
	if !c.Byte || c.Kind != "Reader" || !strings.Contains(d, "syntax error: invalid parameter expansion") {
		return ""
	}
	k := c.K
	for k > 0 && !utf8.RuneStart(c.Src[k]) {
		k--
	}
	if strings.HasSuffix(c.Src[:k], "${") {
		return "read-fault-inside-first-character-of-braced-parameter-name"
	}
	return ""
}

// c10Invalid: sentences the grammar rejects, and transient faults.  The statement fixes the error only
// when the reader's failure is what stops the parse; for an ill-formed program a syntax error may come
// first.  What must hold regardless: the call returns (a blocked call aborts the worker: "all goroutines
// are asleep"), the error is non-nil whenever a fault was delivered, and it is the read error or a
// parser.Error — never a nil error, never a panic.
func c10Invalid(w *W, src string, valid bool) {
	rs := []rune(src)
	w.Count("states", 1)
	for k := 0; k <= len(rs); k++ {
		for _, once := range []bool{false, true} {
			if valid && !once {
				continue // sticky faults on accepted sentences are judged exactly by c10Judge
			}
			fs := &faultScanner{rs: rs, k: k, once: once}
			w.Announce(fmt.Sprintf("%q fault at %d once=%v", src, k, once))
			var err error
			var pan interface{}
			func() {
				defer func() { pan = recover() }()
				_, _, err = parser.ParseCommands(nil, "t", fs)
			}()
			quiesce()
			w.Count("evaluations", 1)
			w.Count("transitions", 1)
			w.Count("traces_validated_against_impl", 1)
			w.Count("fault_runs_invalid_or_transient", 1)
			c := map[string]interface{}{"source": src, "fault_at": k, "transient": once}
			switch {
			case pan != nil:
				w.Violation("", c, fmt.Sprintf("ParseCommands(%q) with the reader failing at rune %d (transient=%v) panicked: %v", src, k, once, pan))
			case fs.delivered && err == nil:
				w.Violation("", c, fmt.Sprintf("ParseCommands(%q): the reader failed at rune %d (transient=%v) and the call returns a nil error", src, k, once))
			case err != nil && !errors.Is(err, errRead):
				if _, ok := err.(parser.Error); !ok {
					w.Violation("", c, fmt.Sprintf("ParseCommands(%q) with the reader failing at rune %d: error %T %v is neither the read error nor a parser.Error", src, k, err, err))
				} else if valid && fs.delivered {
					w.Violation("", c, fmt.Sprintf("ParseCommands(%q), a well-formed program, with the reader failing once at rune %d: the read error is replaced by %q", src, k, err.Error()))
				}
			}
		}
	}
}

func c10Run(w *W) {
	n := 3
	if w.thorough() {
		n = 4
	}
	genSyms(append(append([]string{}, sigmaCore...), ";;", "<<-E", "`c`", "$((1))", "é", "$(", "`"), n, func(ss []sym) {
		if !w.Mine() || w.TimeUp() {
			return // (strings whose quotes pair up across symbols are explored too: the fault-free parse is the reference)
		}
		src := render(ss).src
		c10Sentence(w, src)
		o := runParse(src)
		c10Invalid(w, src, o.err == nil && o.pan == nil)
	})
	seen := map[string]bool{}
	derivations(w.thorough(), func(name string, texts []string) {
		if name == "D3" || name == "WG" || name == "D2" && !w.thorough() {
			return
		}
		key := strings.Join(texts, "\x00")
		if seen[key] {
			return
		}
		seen[key] = true
		if !w.Mine() || w.TimeUp() {
			return
		}
		ss := syms(append(append([]string{}, texts...), "\n")...)
		c10Sentence(w, render(ss).src)
		c10Sentence(w, renderTight(ss).src)
		c10Invalid(w, render(ss).src, true) // the same sentence under a transient fault at every position
	})
	for _, n := range []int{1, 2, 3, 9, 10, 11, 17} {
		if !w.Mine() || w.TimeUp() {
			continue
		}
		for _, src := range repetitionSources(n) {
			c10Sentence(w, src)
		}
	}
	for _, src := range []string{"a \\\nb\n", "a 'q\nq' \"d\n$v\"\n", "cat <<E <<F <<-G\nx\nE\ny\nF\n\tz\n\tG\n", "a $(b <<E\nx\nE\n) `c d`\n", "a &&\n\n# c\nb\n", "case x in a) ;; esac"} {
		if w.Mine() {
			c10Sentence(w, src)
		}
	}
}

func init() {
	register(&check{
		id:    "C10",
		level: "fault_enumeration",
		rule: "every accepted sentence among all strings ≤ 3 (quick) / 4 (thorough) over Σcore+7 and the derivation sets D0, D1, word menu (thorough: D2) in canonical and tight layout × every rune index k ∈ [0, len] at which the reader starts failing × {io.RuneScanner, io.Reader, io.RuneScanner with an error that wraps io.EOF}: the complete set of single-fault positions; additionally every sentence of the string space that the parser REJECTS and every accepted one (of the string space and of the derivation sets) under a transient (one-shot) fault at every k: the call must return, with a non-nil error that is the read error or a parser.Error; " +
			"non-trivial = every base sentence (each is explored at all of its positions)",
		assume: []string{"a fault is 'delivered' when the RuneScanner wrapper returned the sentinel; for io.Reader (wrapped in bufio by go.sh) delivery to the parser is not observable, so the rule is: nil error only with the fault-free result and only if k is not inside the consumed text, otherwise errors.Is(err, sentinel)"},
		run:    c10Run,
		replay: func(raw json.RawMessage) error {
			var c c10Case
			if err := json.Unmarshal(raw, &c); err != nil {
				return err
			}
			o := runParse(c.Src)
			if o.err != nil {
				return nil
			}
			d := dumpAST(o.cmds, false)
			if len(o.cmds) == 0 {
				d = "[]"
			}
			if m := c10Judge(c, c10Ref{d, len([]rune(c.Src[:len(c.Src)-o.rest])), len(c.Src) - o.rest}); m != "" {
				return fmt.Errorf("%s", m)
			}
			return nil
		},
	})
}
