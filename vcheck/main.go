// vcheck — bounded-exhaustive model checking of hattya/go.sh (see /verif/DESIGN.md).
//
//	vcheck run <ID> <quick|thorough>      parent: shards the space over worker subprocesses
//	vcheck worker <ID> <tier> <i> <n> …   worker: explores shard i of n
//	vcheck replay <file>                  re-runs one recorded case without the explorer
package main

import (
	"encoding/json"
	"fmt"
	"os"
	"sort"
	"strconv"
)

// A check explores its (shard of the) space and reports through *W.
type check struct {
	id    string
	level string // evidence level
	// procs lists the environment variants the whole space is explored under
	// (e.g. GODEBUG=panicnil=0 and =1). nil means one run with the default env.
	procs func(tier string) []procCfg
	run   func(w *W)
	// replay re-runs a single recorded case and prints what it observes.
	replay func(raw json.RawMessage) error
	rule   string
	assume []string
	// inproc: run shards as goroutines of one worker process (pure, crash-free code).
	serial bool
}

type procCfg struct {
	name string
	env  []string
	exe  string // worker binary under bin/ if not the parent's own (a phase that needs the build with -tags verif)
}

var checks = map[string]*check{}

func register(c *check) { checks[c.id] = c }

func main() {
	if len(os.Args) < 2 {
		usage()
	}
	switch os.Args[1] {
	case "run":
		if len(os.Args) != 4 {
			usage()
		}
		os.Exit(parentMain(os.Args[2], os.Args[3]))
	case "worker":
		if len(os.Args) < 7 {
			usage()
		}
		i, _ := strconv.Atoi(os.Args[4])
		n, _ := strconv.Atoi(os.Args[5])
		from, _ := strconv.ParseInt(os.Args[6], 10, 64)
		workerMain(os.Args[2], os.Args[3], i, n, from, os.Args[7:])
	case "replay":
		if len(os.Args) != 3 {
			usage()
		}
		os.Exit(replayMain(os.Args[2]))
	case "list":
		var ids []string
		for id := range checks {
			ids = append(ids, id)
		}
		sort.Strings(ids)
		for _, id := range ids {
			fmt.Println(id)
		}
	default:
		if f := extraCommands[os.Args[1]]; f != nil {
			f()
			return
		}
		usage()
	}
}

// extraCommands: sub-commands registered by individual checks (e.g. the race pass of C06).
var extraCommands = map[string]func(){}

func usage() {
	fmt.Fprintln(os.Stderr, "usage: vcheck run <ID> <quick|thorough> | vcheck replay <file> | vcheck list")
	os.Exit(2)
}

func replayMain(path string) int {
	b, err := os.ReadFile(path)
	if err != nil {
		fmt.Fprintln(os.Stderr, err)
		return 2
	}
	var r struct {
		Property string          `json:"property"`
		Case     json.RawMessage `json:"case"`
	}
	if err := json.Unmarshal(b, &r); err != nil {
		fmt.Fprintln(os.Stderr, err)
		return 2
	}
	c := checks[r.Property]
	if c == nil || c.replay == nil {
		fmt.Fprintf(os.Stderr, "no replay for %q\n", r.Property)
		return 2
	}
	if err := c.replay(r.Case); err != nil {
		fmt.Println("REPLAY: violation reproduced:", err)
		return 1
	}
	fmt.Println("REPLAY: case passes")
	return 0
}
