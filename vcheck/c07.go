package main

// C07 — one call consumes exactly one complete command from the stream.
//
// Explicit-state search over streams: a stream is a concatenation of ≤ N
// commands from a menu; the state is the reader's offset; a transition is one
// ParseCommands call on the shared reader.  Oracle: after call i the offset is
// the end of command i (known by construction); result i equals the result of
// parsing command i's text alone; blank lines give empty results.

import (
	"encoding/json"
	"fmt"
	"reflect"
	"strings"

	"github.com/hattya/go.sh/parser"
)

var c07Menu = []string{
	"a\n", "a b\n", "a; b\n", "a &\n", "a | b\n", "a &&\nb\n", "a |\nb\n", "a ||\n\n b\n", "! a\n", "x=1\n", ">f\n",
	"{ a; }\n", "{\na\n}\n", "( a )\n", "(\na\n)\n", "if a; then b; fi\n", "if a\nthen b\nelse c\nfi\n", "while a; do b; done\n", "until a\ndo b\ndone\n",
	"for x in a b; do c; done\n", "for x\ndo c\ndone\n", "for x in a\ndo c\ndone\n", "case x in a) b ;; esac\n", "case x in\na)\nb\n;;\nesac\n", "case x\nin\nesac\n",
	"f() { a; }\n", "f()\n{\na\n}\n", "((1))\n", "{ a; } >f\n", "( (a) )\n",
	"cat <<E\nx\nE\n", "cat <<E <<F\nx\nE\ny\nF\n", "cat <<-E\n\tx\n\tE\n", "cat <<'E'\n$x\nE\n", "{ cat <<E\nx\nE\n}\n", "cat <<E | b\nx\nE\n", "cat <<E &&\nx\nE\nb\n",
	"cat <<E\nE\n", "cat <<E\n\nE\n", "cat <<-A <<B\nx\n\tA\n\tB\ny\nB\n", "cat <<B\n\tB\nB\n", "cat <<E; b\nx\nE\n", "if cat <<E\nx\nE\nthen b; fi\n",
	"((1 +\n2)) # c\n", "a 'q\nq' # c\n", "a $(b\nc) # c\n", "a \\\nb # c\n", "a \"d\n\" # c\n", "{ a 'q\nq' # c\nb\n}\n", "cat <<-E\n\t\tx\n\t\tE\n",
	"a # c\n", "a; # c\n", "{ a # c\n}\n", "a | # c\nb\n", "a # c \\\n", "a b # `'\")\\\n",
	"a \\\nb\n", "a &&\\\n b\n", "a\\\n\n",
	"\n", "  \n", "\t\n",
	"cat <<E\"O\"F\n`\nEOF\n", "cat <<E\\F\n$(\nEF\n", "cat <<E''\n${\nE\n", "cat <<E'F' <<G\n$(\nEF\n$v\nG\n",
	"cat <<E | # c\nx\nE\nb\n", "cat <<E && # c\nx\nE\nb\n", "case x in a) cat <<E ;; # c\nx\nE\nesac\n", "cat <<E | # c\n\nx\nE\nb <<F\ny\nF\n",
	"a && b \\\n# c\n", "a | b \\\n#c\n", "a \\\n# c\n", "{ a && b \\\n# c\nd\n}\n",
	"a 'q\nq'\n", "a \"d\n$v\"\n", "a $(b\nc)\n", "a `b\nc`\n", "a $((1 +\n2))\n", "a ${v:-w\nw}\n", "a $(cat <<E\nx\nE\n)\n",
}

type c07Case struct {
	Parts  []string `json:"commands"`
	Reader string   `json:"reader"`
}

type c07Alone struct {
	dump     string
	comments []string
	err      error
}

var c07Cache = map[string]c07Alone{}

func c07ParseAlone(text string) c07Alone {
	if a, ok := c07Cache[text]; ok {
		return a
	}
	cmds, cm, err := parser.ParseCommands(nil, "t", text)
	a := c07Alone{dump: dumpAST(cmds, false), comments: commentTexts(cm), err: err}
	if len(cmds) == 0 {
		a.dump = "[]"
	}
	c07Cache[text] = a
	return a
}

func c07Judge(c c07Case) string {
	src := strings.Join(c.Parts, "")
	sr := strings.NewReader(src)
	var rd interface{} = sr
	if c.Reader == "runescanner" {
		rd = &countingReader{r: sr}
	}
	off := 0
	for i, part := range c.Parts {
		cmds, cm, err := parser.ParseCommands(nil, "t", rd)
		quiesce()
		end := off + len(part)
		got := len(src) - sr.Len()
		alone := c07ParseAlone(part)
		if alone.err != nil {
			return fmt.Sprintf("menu entry %q does not parse on its own: %v", part, alone.err)
		}
		if err != nil {
			return fmt.Sprintf("call %d on the stream %q fails: %v (command text %q parses on its own)", i+1, src, err, part)
		}
		d := dumpAST(cmds, false)
		if len(cmds) == 0 {
			d = "[]"
		}
		if d != alone.dump {
			return fmt.Sprintf("call %d on the stream %q returns %s; parsing its command text %q alone gives %s", i+1, src, d, part, alone.dump)
		}
		if gc := commentTexts(cm); !reflect.DeepEqual(gc, alone.comments) && len(gc)+len(alone.comments) > 0 {
			return fmt.Sprintf("call %d on the stream %q returns comments %q; parsing %q alone gives %q", i+1, src, gc, part, alone.comments)
		}
		if got != end {
			return fmt.Sprintf("after call %d on the stream %q the reader is at offset %d (%q left); the command %q ends at offset %d (%q should be left)", i+1, src, got, src[got:], part, end, src[end:])
		}
		if strings.TrimLeft(part, " \t") == "\n" && len(cmds) != 0 {
			return fmt.Sprintf("call %d: a blank line must give an empty result, got %s", i+1, d)
		}
		off = end
	}
	return ""
}

func c07Run(w *W) {
	n := 3
	if w.thorough() {
		n = 4
	}
	menu := c07Menu
	// "last command without final newline": variants used in last position only
	var last []string
	for _, m := range menu {
		t := strings.TrimSuffix(m, "\n")
		if t != "" && strings.TrimSpace(t) != "" && !strings.HasSuffix(t, "\\") {
			last = append(last, t)
		}
	}
	cur := make([]string, 0, n)
	var rec func()
	rec = func() {
		if len(cur) > 0 && w.Mine() && !w.TimeUp() {
			run := func(parts []string) {
				for _, rk := range []string{"strings.Reader", "runescanner"} {
					c := c07Case{Parts: parts, Reader: rk}
					w.Announce(strings.Join(parts, ""))
					w.Count("evaluations", 1)
					w.Count("states", int64(len(parts)))
					w.Count("transitions", int64(len(parts)))
					w.Count("traces_validated_against_impl", 1)
					if len(parts) > 1 {
						w.Count("distinct_nontrivial", 1)
					}
					if d := c07Judge(c); d != "" {
						cc := c
						cc.Parts = append([]string{}, parts...)
						w.Violation("", cc, d)
					}
				}
			}
			run(cur)
			w.Sample(map[string]interface{}{"stream": strings.Join(cur, "")})
			// the same stream with its last command lacking the final newline
			lastPart := cur[len(cur)-1]
			if t := strings.TrimSuffix(lastPart, "\n"); t != "" && strings.TrimSpace(t) != "" && !strings.HasSuffix(t, "\\") {
				alt := append(append([]string{}, cur[:len(cur)-1]...), t)
				run(alt)
			}
		}
		if len(cur) == n {
			return
		}
		for _, m := range menu {
			cur = append(cur, m)
			rec()
			cur = cur[:len(cur)-1]
		}
	}
	rec()
	_ = last
	// every derivation of the grammar generator (each compound form, nested once, here-documents before each
	// compound form, the word menu) in one-line and multi-line layout as the FIRST command of a stream, followed
	// by each of a few commands: whatever state a construct leaves behind in the lexer must not reach the next call
	// the repetition family as first command of a stream (only the sources that are ONE command)
	for n := 1; n <= 24; n++ {
		if !w.Mine() || w.TimeUp() {
			continue
		}
		for _, src := range repetitionSources(n) {
			if o := runParse(src); o.err != nil || o.rest != 0 || len(o.cmds) == 0 {
				continue
			}
			for _, fo := range [][]string{{"a\n"}, {"cat <<E\nx\nE\n", "b\n"}} {
				parts := append([]string{src}, fo...)
				for _, rk := range []string{"strings.Reader", "runescanner"} {
					c := c07Case{Parts: parts, Reader: rk}
					w.Announce(src)
					w.Count("evaluations", 1)
					w.Count("repetition_streams", 1)
					w.Count("states", int64(len(parts)))
					w.Count("transitions", int64(len(parts)))
					w.Count("traces_validated_against_impl", 1)
					w.Count("distinct_nontrivial", 1)
					if d := c07Judge(c); d != "" {
						w.Violation("", c, d)
					}
				}
			}
		}
	}
	followers := [][]string{{"a\n"}, {"{ b; }\n", "c\n"}, {"cat <<E\nx\nE\n"}, {"\n", "if a; then b; fi\n"}, {"a"}}
	seen := map[string]bool{}
	derivations(w.thorough(), func(name string, texts []string) {
		if name == "WN" || name == "WG" || name == "D3" || name == "D2" && !w.thorough() {
			return
		}
		key := strings.Join(texts, "\x00")
		if seen[key] || !w.Mine() || w.TimeUp() {
			seen[key] = true
			return
		}
		seen[key] = true
		ss := syms(append(append([]string{}, texts...), "\n")...)
		m := gramParse(ss)
		if !m.ok || m.dontcare != "" {
			return
		}
		firsts := []string{render(ss).src}
		if ml := render(multiLine(ss, m)).src; ml != firsts[0] {
			firsts = append(firsts, ml)
		}
		if sn := semiNewline(ss, m); sn != nil {
			firsts = append(firsts, render(sn).src)
		}
		for _, first := range firsts {
			if a := c07ParseAlone(first); a.err != nil {
				continue // C02's business
			}
			for _, fo := range followers {
				parts := append([]string{first}, fo...)
				for _, rk := range []string{"strings.Reader", "runescanner"} {
					c := c07Case{Parts: parts, Reader: rk}
					w.Announce(strings.Join(parts, ""))
					w.Count("evaluations", 1)
					w.Count("derivation_streams", 1)
					w.Count("states", int64(len(parts)))
					w.Count("transitions", int64(len(parts)))
					w.Count("traces_validated_against_impl", 1)
					w.Count("distinct_nontrivial", 1)
					if d := c07Judge(c); d != "" {
						w.Violation("", c, d)
					}
				}
			}
		}
	})
}

func init() {
	register(&check{
		id:    "C07",
		level: "model_checking",
		rule: "every stream that is a concatenation of ≤ 3 (quick) / 4 (thorough) commands from an 85-entry menu (single-line, multi-line compound, one and two here-documents incl. <<- and quoted delimiters, here-documents before | && ; and inside compounds and substitutions, trailing comments, line continuations, blank lines, multi-line quotes and substitutions), " +
			"each also with the last command lacking its final newline, read from a strings.Reader and from a custom RuneScanner; state = reader offset, transition = one ParseCommands call; non-trivial = streams of ≥ 2 commands",
		assume: []string{"the end of every command is known by construction of the stream; the result of parsing the command's text alone is the reference for the result of the corresponding call",
			"comment-only lines are not in the menu (go.sh's own tests pin that they are skipped together with the following blank lines)"},
		run: c07Run,
		replay: func(raw json.RawMessage) error {
			var c c07Case
			if err := json.Unmarshal(raw, &c); err != nil {
				return err
			}
			if d := c07Judge(c); d != "" {
				return fmt.Errorf("%s", d)
			}
			return nil
		},
	})
}
