package main

import (
	"bytes"
	"crypto/sha1"
	"encoding/binary"
	"encoding/json"
	"fmt"
	"os"
	"os/exec"
	"path/filepath"
	"runtime"
	"sort"
	"strconv"
	"strings"
	"sync"
	"syscall"
	"time"
)

const verifDir = "/verif"

// ---------------------------------------------------------------- worker side

type violation struct {
	Class  string          `json:"class"` // "" = unattributed; otherwise a known-finding key candidate
	Case   json.RawMessage `json:"case"`
	Detail string          `json:"detail"`
	Proc   string          `json:"proc,omitempty"`
}

type result struct {
	Counts     map[string]int64    `json:"counts"`
	Viol       []violation         `json:"viol"`
	ViolCount  map[string]int64    `json:"viol_count"` // per class
	Samples    []interface{}       `json:"samples"`
	Incomplete bool                `json:"incomplete"` // a time/size cap was hit
	Notes      []string            `json:"notes,omitempty"`
	Sets       map[string][]string `json:"sets,omitempty"` // small string sets, unioned by the parent
}

// W is the per-worker context handed to a check.
type W struct {
	id, tier   string
	shard, n   int
	from       int64
	args       []string
	seed       int64
	idx        int64
	prog       []byte
	res        result
	deadline   time.Time
	proc       string
	sampleSeen int64
	sets       map[string]map[string]bool
}

func (w *W) thorough() bool { return w.tier == "thorough" }

// Mine advances the unit counter and reports whether this unit belongs to this
// worker.  Units before w.from (already explored by a crashed predecessor) are
// skipped.
func (w *W) Mine() bool {
	i := w.idx
	w.idx++
	if i%int64(w.n) != int64(w.shard) || i < w.from {
		return false
	}
	if w.prog != nil {
		binary.LittleEndian.PutUint64(w.prog[0:8], uint64(i))
	}
	return true
}

// Announce records the case about to run, so that a crash of the whole
// process can be attributed to it.
func (w *W) Announce(desc string) {
	if w.prog == nil {
		return
	}
	if len(desc) > 3000 {
		desc = desc[:3000]
	}
	binary.LittleEndian.PutUint16(w.prog[16:18], uint16(len(desc)))
	copy(w.prog[18:], desc)
	binary.LittleEndian.PutUint64(w.prog[8:16], binary.LittleEndian.Uint64(w.prog[8:16])+1)
}

func (w *W) Count(key string, n int64) { w.res.Counts[key] += n }

func (w *W) SetAdd(set, v string) {
	if w.sets[set] == nil {
		w.sets[set] = map[string]bool{}
	}
	if len(w.sets[set]) < 5000 {
		w.sets[set][v] = true
	}
}

// Sample keeps a few of the explored cases for the evidence file (reservoir
// over a deterministic stride, rotated by the seed).
func (w *W) Sample(v interface{}) {
	w.sampleSeen++
	if len(w.res.Samples) < 4 {
		w.res.Samples = append(w.res.Samples, v)
		return
	}
	if (w.sampleSeen+w.seed)%9973 == 0 {
		w.res.Samples[int(w.sampleSeen/9973)%4] = v
	}
}

func (w *W) Violation(class string, c interface{}, detail string) {
	w.res.ViolCount[class]++
	n := 0
	for _, v := range w.res.Viol {
		if v.Class == class {
			n++
		}
	}
	if n >= 25 {
		return
	}
	b, _ := json.Marshal(c)
	w.res.Viol = append(w.res.Viol, violation{Class: class, Case: b, Detail: detail, Proc: w.proc})
}

func (w *W) Note(s string) { w.res.Notes = append(w.res.Notes, s) }

// TimeUp reports whether the internal budget is used up; the check then stops
// and the run is reported as not exhaustive.
func (w *W) TimeUp() bool {
	if time.Now().After(w.deadline) {
		w.res.Incomplete = true
		return true
	}
	return false
}

func workerMain(id, tier string, shard, n int, from int64, args []string) {
	c := checks[id]
	if c == nil {
		fmt.Fprintf(os.Stderr, "unknown check %q\n", id)
		os.Exit(2)
	}
	w := &W{id: id, tier: tier, shard: shard, n: n, from: from, args: args, sets: map[string]map[string]bool{}}
	w.res.Counts = map[string]int64{}
	w.res.ViolCount = map[string]int64{}
	w.seed, _ = strconv.ParseInt(os.Getenv("VERIF_SEED"), 10, 64)
	w.proc = os.Getenv("VCHECK_PROC")
	budget := 100 * time.Second
	if tier == "thorough" {
		budget = 15 * time.Minute
	}
	if s := os.Getenv("VCHECK_BUDGET_S"); s != "" {
		if v, err := strconv.Atoi(s); err == nil {
			budget = time.Duration(v) * time.Second
		}
	}
	w.deadline = time.Now().Add(budget)
	if p := os.Getenv("VCHECK_PROGRESS"); p != "" {
		f, err := os.OpenFile(p, os.O_RDWR|os.O_CREATE, 0o644)
		if err == nil {
			f.Truncate(4096)
			m, err := syscall.Mmap(int(f.Fd()), 0, 4096, syscall.PROT_READ|syscall.PROT_WRITE, syscall.MAP_SHARED)
			if err == nil {
				w.prog = m
				for i := range m {
					m[i] = 0
				}
			}
			f.Close()
		}
	}
	c.run(w)
	if len(w.sets) > 0 {
		w.res.Sets = map[string][]string{}
		for k, m := range w.sets {
			for v := range m {
				w.res.Sets[k] = append(w.res.Sets[k], v)
			}
			sort.Strings(w.res.Sets[k])
		}
	}
	out, _ := json.Marshal(&w.res)
	os.Stdout.Write([]byte("\nVCHECK-RESULT " + string(out) + "\n"))
}

// ---------------------------------------------------------------- parent side

type knownFinding struct {
	Property string `json:"property"`
	Key      string `json:"key"`
	Status   string `json:"status"` // known | fixed
	What     string `json:"what"`
	Witness  string `json:"witness,omitempty"`
	Commit   string `json:"commit,omitempty"`
}

// known_findings.txt, one finding per line:
//
//	known: property=C11 key=<class> <what fails>
//	fixed: property=C12 <commit> <what failed>
//
// Only "known" lines suppress anything; the file is never written at run time.
func loadKnown(id string) map[string]knownFinding {
	m := map[string]knownFinding{}
	b, err := os.ReadFile(filepath.Join(verifDir, "known_findings.txt"))
	if err != nil {
		return m
	}
	for _, l := range strings.Split(string(b), "\n") {
		if !strings.HasPrefix(l, "known: ") {
			continue
		}
		f := strings.Fields(l[len("known: "):])
		if len(f) < 3 || !strings.HasPrefix(f[0], "property=") || !strings.HasPrefix(f[1], "key=") {
			fmt.Fprintln(os.Stderr, "known_findings.txt: malformed line:", l)
			os.Exit(2)
		}
		if f[0][len("property="):] != id {
			continue
		}
		k := f[1][len("key="):]
		m[k] = knownFinding{Property: id, Key: k, Status: "known", What: strings.Join(f[2:], " ")}
	}
	return m
}

type job struct {
	proc  procCfg
	shard int
}

func parentMain(id, tier string) int {
	c := checks[id]
	if c == nil {
		fmt.Fprintf(os.Stderr, "unknown check %q\n", id)
		return 2
	}
	if tier != "quick" && tier != "thorough" {
		usage()
	}
	t0 := time.Now()
	seed, _ := strconv.ParseInt(os.Getenv("VERIF_SEED"), 10, 64)
	procs := []procCfg{{name: "default"}}
	if c.procs != nil {
		procs = c.procs(tier)
	}
	nshards := runtime.NumCPU()
	if s := os.Getenv("VCHECK_SHARDS"); s != "" {
		nshards, _ = strconv.Atoi(s)
	}
	if c.serial {
		nshards = 1
	}
	tmp := filepath.Join(verifDir, "tmp")
	os.MkdirAll(tmp, 0o755)
	var jobs []job
	for _, p := range procs {
		for i := 0; i < nshards; i++ {
			jobs = append(jobs, job{p, i})
		}
	}
	total := result{Counts: map[string]int64{}, ViolCount: map[string]int64{}}
	sets := map[string]map[string]bool{}
	var mu sync.Mutex
	sem := make(chan struct{}, runtime.NumCPU())
	var wg sync.WaitGroup
	exe, _ := os.Executable()
	for _, j := range jobs {
		wg.Add(1)
		sem <- struct{}{}
		go func(j job) {
			defer wg.Done()
			defer func() { <-sem }()
			from := int64(0)
			hangs := 0
			exe := exe
			if j.proc.exe != "" {
				exe = filepath.Join(verifDir, "bin", j.proc.exe)
				if _, err := os.Stat(exe); err != nil {
					mu.Lock()
					total.Incomplete = true
					if j.shard == 0 {
						total.Notes = append(total.Notes, fmt.Sprintf("phase %s skipped: bin/%s is not built", j.proc.name, j.proc.exe))
					}
					mu.Unlock()
					return
				}
			}
			for attempt := 0; attempt < 12; attempt++ {
				r, crash := runWorker(exe, id, tier, j, nshards, from, tmp)
				mu.Lock()
				if r != nil {
					merge(&total, r, sets)
				}
				if crash != nil && crash.abandoned {
					total.Incomplete = true
					total.Notes = append(total.Notes, fmt.Sprintf("shard %d/%s: unit %d abandoned — the worker got no CPU for %v (machine overloaded); not counted as a hang", j.shard, j.proc.name, crash.idx, 15*hangLimit()))
				} else if crash != nil {
					b, _ := json.Marshal(map[string]interface{}{"crashed_in": crash.desc, "unit": crash.idx, "proc": j.proc.name, "env": j.proc.env})
					total.ViolCount[crash.class]++
					total.Viol = append(total.Viol, violation{Class: crash.class, Case: b, Detail: crash.detail, Proc: j.proc.name})
				}
				mu.Unlock()
				if crash == nil {
					return
				}
				if crash.hung {
					hangs++
					if hangs >= 3 {
						mu.Lock()
						total.Incomplete = true
						total.Notes = append(total.Notes, fmt.Sprintf("shard %d/%s abandoned after %d hangs", j.shard, j.proc.name, hangs))
						mu.Unlock()
						return
					}
				}
				from = crash.idx + 1
			}
			mu.Lock()
			total.Incomplete = true
			total.Notes = append(total.Notes, fmt.Sprintf("shard %d/%s abandoned after repeated worker crashes", j.shard, j.proc.name))
			mu.Unlock()
		}(j)
	}
	wg.Wait()
	os.RemoveAll(tmp)

	if p := os.Getenv("VCHECK_DUMP"); p != "" {
		b, _ := json.MarshalIndent(total.Viol, "", " ")
		os.WriteFile(p, b, 0o644)
	}
	// ---- classify
	known := loadKnown(id)
	exit := 0
	var classes []string
	for k := range total.ViolCount {
		classes = append(classes, k)
	}
	sort.Strings(classes)
	var newViol int64
	knownHits := map[string]int64{}
	os.MkdirAll(filepath.Join(verifDir, "replays"), 0o755)
	for _, cl := range classes {
		if kf, ok := known[cl]; ok && cl != "" {
			knownHits[cl] = total.ViolCount[cl]
			ex := ""
			for _, v := range total.Viol {
				if v.Class == cl {
					ex = " e.g. " + string(v.Case)
					break
				}
			}
			if len(ex) > 300 {
				ex = ex[:300] + "…"
			}
			fmt.Printf("KNOWN-FINDING: property=%s %s [%s] (%d cases this run)%s\n", id, kf.What, cl, total.ViolCount[cl], ex)
			continue
		}
		newViol += total.ViolCount[cl]
		exit = 1
		shown := 0
		for _, v := range total.Viol {
			if v.Class != cl {
				continue
			}
			if shown >= 8 {
				break
			}
			shown++
			rec := map[string]interface{}{"property": id, "class": cl, "case": v.Case, "detail": v.Detail, "proc": v.Proc, "tier": tier}
			b, _ := json.MarshalIndent(rec, "", " ")
			h := sha1.Sum(b)
			path := filepath.Join(verifDir, "replays", fmt.Sprintf("%s-%x.json", id, h[:6]))
			os.WriteFile(path, b, 0o644)
			d := v.Detail
			if len(d) > 400 {
				d = d[:400] + "…"
			}
			fmt.Printf("VIOLATION property=%s replay=%s class=%q %s\n", id, path, cl, strings.ReplaceAll(d, "\n", "\\n"))
		}
		if n := total.ViolCount[cl]; n > int64(shown) {
			fmt.Printf("  (%d violations of class %q in total)\n", n, cl)
		}
	}

	// ---- evidence
	cov := map[string]interface{}{}
	for k, v := range total.Counts {
		cov[k] = v
	}
	for k, m := range sets {
		cov["distinct_"+k] = len(m)
	}
	if _, ok := cov["evaluations"]; !ok {
		cov["evaluations"] = int64(0)
	}
	if _, ok := cov["distinct_nontrivial"]; !ok {
		cov["distinct_nontrivial"] = int64(0)
	}
	cov["rule"] = c.rule
	if len(total.Samples) == 0 {
		total.Samples = []interface{}{"(no case explored)"}
	}
	if len(total.Samples) > 12 {
		off := int(seed) % len(total.Samples)
		if off < 0 {
			off = -off
		}
		rot := append(append([]interface{}{}, total.Samples[off:]...), total.Samples[:off]...)
		total.Samples = rot[:12]
	}
	cov["samples"] = total.Samples
	cov["exhaustive"] = !total.Incomplete
	if len(total.Notes) > 0 {
		sort.Strings(total.Notes)
		if len(total.Notes) > 20 {
			total.Notes = total.Notes[:20]
		}
		cov["notes"] = total.Notes
	}
	cov["worker_processes"] = len(jobs)
	var pn []string
	for _, p := range procs {
		pn = append(pn, p.name)
	}
	cov["process_configurations"] = pn
	if len(knownHits) > 0 {
		cov["known_finding_hits"] = knownHits
	}
	ev := map[string]interface{}{
		"property_id": id,
		"tier":        tier,
		"seed":        seed,
		"level":       c.level,
		"coverage":    cov,
		"assumptions": c.assume,
		"wall_s":      float64(int(time.Since(t0).Seconds()*100)) / 100,
		"violations":  newViol,
	}
	b, _ := json.MarshalIndent(ev, "", " ")
	os.MkdirAll(filepath.Join(verifDir, "evidence"), 0o755)
	if err := os.WriteFile(filepath.Join(verifDir, "evidence", id+".json"), append(b, '\n'), 0o644); err != nil {
		fmt.Fprintln(os.Stderr, err)
		return 2
	}
	fmt.Printf("%s %s: evaluations=%v distinct_nontrivial=%v exhaustive=%v new_violations=%d known_classes=%d wall=%.1fs\n",
		id, tier, cov["evaluations"], cov["distinct_nontrivial"], cov["exhaustive"], newViol, len(knownHits), time.Since(t0).Seconds())
	return exit
}

func merge(t *result, r *result, sets map[string]map[string]bool) {
	for k, v := range r.Counts {
		t.Counts[k] += v
	}
	for k, v := range r.ViolCount {
		t.ViolCount[k] += v
	}
	t.Viol = append(t.Viol, r.Viol...)
	t.Samples = append(t.Samples, r.Samples...)
	t.Notes = append(t.Notes, r.Notes...)
	if r.Incomplete {
		t.Incomplete = true
	}
	for k, vs := range r.Sets {
		if sets[k] == nil {
			sets[k] = map[string]bool{}
		}
		for _, v := range vs {
			sets[k][v] = true
		}
	}
}

type crashInfo struct {
	abandoned bool // the worker made no progress but was neither blocked nor spinning (starved machine): not a verdict
	hung      bool
	idx       int64
	desc      string
	detail    string
	class     string
}

func runWorker(exe, id, tier string, j job, nshards int, from int64, tmp string) (*result, *crashInfo) {
	prog := filepath.Join(tmp, fmt.Sprintf("prog-%s-%d-%d", j.proc.name, j.shard, from))
	cmd := exec.Command(exe, "worker", id, tier, strconv.Itoa(j.shard), strconv.Itoa(nshards), strconv.FormatInt(from, 10))
	cmd.Env = append(os.Environ(), "VCHECK_PROGRESS="+prog, "VCHECK_PROC="+j.proc.name, "GOMAXPROCS=1", "GOTRACEBACK=all")
	cmd.Env = append(cmd.Env, j.proc.env...)
	var stdout, stderr bytes.Buffer
	cmd.Stdout = &stdout
	cmd.Stderr = &stderr
	if err := cmd.Start(); err != nil {
		return nil, &crashInfo{idx: 1 << 60, detail: "cannot start worker: " + err.Error()}
	}
	done := make(chan error, 1)
	go func() { done <- cmd.Wait() }()
	// watchdog: no progress for a long time ⇒ kill and report a hang
	// (see procstat.go: wall-clock time alone is no evidence on a busy machine)
	var last uint64
	lastChange := time.Now()
	idleSince := lastChange
	hung, abandoned := false, false
	hungWhy := ""
	const tickEvery = 2 * time.Second
	tick := time.NewTicker(tickEvery)
	defer tick.Stop()
	prev := sampleProcs(procTree(cmd.Process.Pid))
	cpuAtChange := prev.runNs
	var werr error
wait:
	for {
		select {
		case werr = <-done:
			break wait
		case <-tick.C:
			now := time.Now()
			b, err := os.ReadFile(prog)
			smp := sampleProcs(procTree(cmd.Process.Pid))
			progressed := false
			if err == nil && len(b) >= 16 {
				cur := binary.LittleEndian.Uint64(b[0:8])*1000003 + binary.LittleEndian.Uint64(b[8:16])
				if cur != last {
					last = cur
					progressed = true
				}
			}
			busy := (smp.runNs + smp.waitNs) - (prev.runNs + prev.waitNs)
			if smp.runNs+smp.waitNs < prev.runNs+prev.waitNs {
				busy = 0 // a child has exited
			}
			switch {
			case progressed || !smp.ok:
				lastChange, idleSince, cpuAtChange = now, now, smp.runNs
			case smp.active || time.Duration(busy) > tickEvery/4 || smp.blkio != prev.blkio:
				idleSince = now // running, waiting for a CPU or for the disk: not blocked
			}
			if smp.runNs < cpuAtChange {
				cpuAtChange = smp.runNs
			}
			prev = smp
			limit := hangLimit()
			switch {
			case time.Duration(smp.runNs-cpuAtChange) > limit:
				hung, hungWhy = true, fmt.Sprintf("no progress while consuming %v of CPU time (livelock)", limit)
			case now.Sub(idleSince) > limit && now.Sub(lastChange) > limit:
				hung, hungWhy = true, fmt.Sprintf("no progress for %v with every thread asleep (blocked)", limit)
			case now.Sub(lastChange) > 15*limit:
				// neither: the machine does not let the worker run; this is not a verdict about the code
				abandoned = true
			}
			if hung || abandoned {
				cmd.Process.Kill()
			}
		}
	}
	out := stdout.String()
	if i := strings.LastIndex(out, "\nVCHECK-RESULT "); i >= 0 && werr == nil {
		var r result
		line := out[i+len("\nVCHECK-RESULT "):]
		if k := strings.IndexByte(line, '\n'); k >= 0 {
			line = line[:k]
		}
		if err := json.Unmarshal([]byte(line), &r); err == nil {
			os.Remove(prog)
			return &r, nil
		}
	}
	// crashed, deadlocked or hung
	ci := &crashInfo{hung: hung, abandoned: abandoned}
	if b, err := os.ReadFile(prog); err == nil && len(b) >= 18 {
		ci.idx = int64(binary.LittleEndian.Uint64(b[0:8]))
		n := int(binary.LittleEndian.Uint16(b[16:18]))
		if 18+n <= len(b) {
			ci.desc = string(b[18 : 18+n])
		}
	}
	os.Remove(prog)
	se := stderr.String()
	kind := "worker process died"
	switch {
	case hung:
		kind = hungWhy + ", worker killed"
	case strings.Contains(se, "all goroutines are asleep"):
		kind = "deadlock: all goroutines are asleep"
	}
	ci.detail = fmt.Sprintf("%s while exploring %q [%s]: %s", kind, ci.desc, j.proc.name, crashSummary(se))
	if f := crashClassifier[id]; f != nil {
		ci.class = f(ci.desc, se)
	}
	return nil, ci
}

var crashClassifier = map[string]func(desc, stderr string) string{}

func hangLimit() time.Duration {
	if s := os.Getenv("VCHECK_HANG_S"); s != "" {
		if v, err := strconv.Atoi(s); err == nil {
			return time.Duration(v) * time.Second
		}
	}
	return 120 * time.Second
}

// crashSummary extracts the panic message and the first go.sh frame.
func crashSummary(se string) string {
	lines := strings.Split(se, "\n")
	var msg, frame string
	for i, l := range lines {
		if msg == "" && (strings.HasPrefix(l, "panic:") || strings.HasPrefix(l, "fatal error:")) {
			msg = l
			if i+1 < len(lines) && strings.HasPrefix(lines[i+1], "\tpanic:") {
				msg += " " + strings.TrimSpace(lines[i+1])
			}
		}
		if msg != "" && frame == "" && strings.Contains(l, "github.com/hattya/go.sh/") && !strings.HasPrefix(l, "\t") {
			frame = strings.TrimSpace(l)
			if i+1 < len(lines) {
				frame += " @ " + strings.TrimSpace(lines[i+1])
			}
		}
	}
	if msg == "" {
		if len(se) > 300 {
			se = se[len(se)-300:]
		}
		return strings.TrimSpace(se)
	}
	return msg + " in " + frame
}
