package main

// C01 — parsing is total: a result or an error, never a crash or a hang.
// C19 — whatever the parser produces can be printed, measured and expanded
//       without panic; Eval, Match, Glob and Option.String never panic.
//
// Both run every case in worker subprocesses under GODEBUG=panicnil=0 and =1;
// a worker that dies, deadlocks ("all goroutines are asleep") or stops making
// progress is a violation attributed to the case it had announced.

import (
	"bufio"
	"bytes"
	"encoding/json"
	"fmt"
	"os"
	"path/filepath"
	"reflect"
	"regexp/syntax"
	"strconv"
	"strings"

	"github.com/hattya/go.sh/ast"
	"github.com/hattya/go.sh/interp"
	"github.com/hattya/go.sh/parser"
	"github.com/hattya/go.sh/pattern"
	"github.com/hattya/go.sh/printer"
)

// c01Procs: the two GODEBUG settings, plus the schedule phase, whose workers are the binary built with -tags verif.
func c01Procs(string) []procCfg {
	return []procCfg{{name: "panicnil=1", env: []string{"GODEBUG=panicnil=1"}}, {name: "panicnil=0", env: []string{"GODEBUG=panicnil=0"}}, {name: "schedules", exe: "vcheck-verif"}}
}

func panicnilProcs(string) []procCfg {
	return []procCfg{{name: "panicnil=1", env: []string{"GODEBUG=panicnil=1"}}, {name: "panicnil=0", env: []string{"GODEBUG=panicnil=0"}}}
}

// parserCorpora enumerates the sources of the totality checks:
// the symbol strings of the tier's alphabets and all character strings ≤ n
// over the shell's significant characters.
func parserCorpora(w *W, f func(kind, src string)) {
	for _, ab := range parseBounds(w.tier) {
		n := ab.n
		if ab.name == "min" || ab.name == "tiny" {
			n-- // the two long bounds are C02/C03's; totality is explored one shorter there
		}
		genSyms(ab.sigma, n, func(ss []sym) {
			if !w.Mine() || w.TimeUp() {
				return
			}
			f("symbols/"+ab.name, render(ss).src)
		})
	}
	n := 5
	if w.thorough() {
		n = 6
	}
	genRunes([]rune("a'\"\\${}()`#<\n "), n, func(rs []rune) {
		if !w.Mine() || w.TimeUp() {
			return
		}
		f("characters", string(rs))
	})
}

var c01AliasTables = []map[string]string{
	nil,
	{"a": "a"},                                 // self reference
	{"a": "b", "b": "a"},                       // 2-cycle
	{"a": "b", "b": "c", "c": "a"},             // 3-cycle
	{"a": "b ", "b": "a "},                     // cycle through trailing blanks
	{"a": "x; b |", "b": "if a; then"},         // operators and reserved words
	{"a": "b\nc", "b": "'q", "c": "a \n a"},    // newline, unterminated quote
	{"a": "for", "if": "a", "{": "(", "b": ""}, // reserved words as names, empty value
}

type byteReader struct{ r *strings.Reader }

func (b byteReader) Read(p []byte) (int, error) {
	if len(p) > 1 {
		p = p[:1]
	}
	return b.r.Read(p)
}

type c01Case struct {
	Src    string            `json:"source"`
	Kind   string            `json:"source_kind"`
	Alias  map[string]string `json:"aliases,omitempty"`
	Single bool              `json:"parse_command,omitempty"`
	// schedule phase (binary built with -tags verif): the choice sequence of the controlled scheduler
	Schedule []int `json:"schedule,omitempty"`
}

// set by c01sched.go (build tag verif)
var (
	c01SchedulePhase  func(w *W)
	c01ScheduleReplay func(c c01Case) error
)

func c01Source(kind, src string) interface{} {
	switch kind {
	case "string":
		return src
	case "bytes":
		return []byte(src)
	case "reader":
		return byteReader{strings.NewReader(src)}
	case "bufio":
		return bufio.NewReader(strings.NewReader(src))
	}
	return &countingReader{r: strings.NewReader(src)}
}

func c01Judge(c c01Case) string {
	var env *interp.ExecEnv
	if c.Alias != nil {
		env = interp.NewExecEnv("sh")
		for k, v := range c.Alias {
			env.Aliases[k] = v
		}
	}
	src := c01Source(c.Kind, c.Src)
	var cmds []ast.Command
	var comments []*ast.Comment
	var err error
	var pan interface{}
	func() {
		defer func() { pan = recover() }()
		if c.Single {
			var cmd ast.Command
			cmd, comments, err = parser.ParseCommand("t", src)
			if cmd != nil {
				cmds = []ast.Command{cmd}
			}
		} else {
			cmds, comments, err = parser.ParseCommands(env, "t", src)
		}
	}()
	leaked := quiesce()
	if pan != nil {
		return fmt.Sprintf("panic in the caller's goroutine: %v", pan)
	}
	if cr, ok := src.(*countingReader); ok && cr.reads > 1000+100*len(c.Src) {
		return fmt.Sprintf("livelock suspected: %d ReadRune calls for %d bytes of input", cr.reads, len(c.Src))
	}
	if len(cmds) == 0 && err == nil && c.Alias == nil {
		// the empty result is right only for input whose first line holds no command
		// (a backslash-newline is a line continuation and joins the lines)
		joined := strings.ReplaceAll(c.Src, "\\\n", "")
		first := strings.TrimLeft(strings.SplitN(joined, "\n", 2)[0], " \t")
		if first != "" && !strings.HasPrefix(first, "#") {
			return fmt.Sprintf("neither commands nor an error for input whose first line %q holds a command", first)
		}
	}
	_ = comments
	if leaked > 0 && err == nil {
		return fmt.Sprintf("%d goroutine(s) still alive after a successful parse returned and the scheduler was yielded to 200 times", leaked)
	}
	return ""
}

func init() {
	register(&check{
		id:    "C01",
		level: "model_checking",
		procs: c01Procs,
		rule: "every symbol string of the tier's alphabets/bounds and every character string ≤ 5 (quick) / 6 (thorough) over {a ' \" \\ $ { } ( ) ` # < newline blank}, each parsed from a string, a []byte, a one-byte-at-a-time io.Reader, a bufio.Reader and a custom io.RuneScanner, " +
			"by ParseCommands and ParseCommand; the shorter strings additionally under 7 alias tables (self reference, 2- and 3-cycles, trailing blanks, operators, reserved words, newline, unterminated quote); one construct repeated or nested n = 1…24 (thorough 64) times for 45 constructs (here-documents per line and per group, substitutions, quotes, lists, case items, elif chains, every nesting form); every alias value of ≤ 3 (thorough 4) characters over {a blank newline ; ' # $ ( ` \\ | x \" < ) { }} in 3 tables × 7 sources; everything under GODEBUG=panicnil=0 and =1; plus a schedule phase on the build with -tags verif: every interleaving of the lexer and parser goroutines with ≤ 1 (thorough 2) preemptions for ≈ 150 sources (each here-document template of C08, every construct repeated or nested once and twice, inputs that end inside a here-document / substitution / quote) — the call must return under each; " +
			"non-trivial = the source is not accepted (error paths are where the lexer bails out)",
		assume: []string{"each case runs in a GOMAXPROCS=1 worker process; after the call the worker yields until the goroutines started by it are gone, so an asynchronous crash is attributed to its case",
			"a blocked call shows as the Go runtime's deadlock abort or as the parent's no-progress watchdog; in the schedule phase as a state of the controlled scheduler in which the caller has not returned and no goroutine is enabled; what the call returns under each schedule is C06's and C08's"},
		run: func(w *W) {
			if w.proc == "schedules" {
				// schedule dimension (c01sched.go)
				if c01SchedulePhase != nil {
					c01SchedulePhase(w)
				} else {
					w.Note("schedule phase skipped: the worker is built without -tags verif")
					w.res.Incomplete = true
				}
				return
			}
			kinds := []string{"string", "bytes", "reader", "bufio", "runescanner"}
			parserCorpora(w, func(kind, src string) {
				w.Announce(src)
				w.Count("states", 1)
				w.Count("transitions", int64(len(src)))
				short := len(src) <= 8
				nt := false
				for ki, k := range kinds {
					if ki > 0 && !short && kind != "characters" {
						break // long symbol strings: string source only (the readers differ per character, not per token)
					}
					for _, single := range []bool{false, true} {
						c := c01Case{Src: src, Kind: k, Single: single}
						w.Count("evaluations", 1)
						w.Count("traces_validated_against_impl", 1)
						if d := c01Judge(c); d != "" {
							w.Violation("", c, fmt.Sprintf("ParseCommands(%q) [%s]: %s", src, k, d))
						}
					}
				}
				if short || kind == "symbols/core" && len(src) <= 12 {
					for ti, tbl := range c01AliasTables[1:] {
						c := c01Case{Src: src, Kind: "runescanner", Alias: tbl}
						w.Count("evaluations", 1)
						w.Count("alias_table_runs", 1)
						if d := c01Judge(c); d != "" {
							w.Violation("", c, fmt.Sprintf("ParseCommands(%q) with alias table %d %v: %s", src, ti+1, tbl, d))
						}
					}
				}
				if _, _, err := parser.ParseCommands(nil, "t", src); err != nil {
					nt = true
				}
				quiesce()
				if nt {
					w.Count("distinct_nontrivial", 1)
					w.Sample(map[string]string{"source": src})
				}
			})
			// repetition family: one construct repeated / nested n times, n = 1 … 24 (thorough 64): counts above 9,
			// buffers, stacks and queues that fill up
			maxRep := 24
			if w.thorough() {
				maxRep = 64
			}
			for n := 1; n <= maxRep; n++ {
				if !w.Mine() || w.TimeUp() {
					continue
				}
				srcs := repetitionSources(n)
				for _, src := range srcs {
					w.Announce(src)
					w.Count("states", 1)
					for _, k := range []string{"string", "runescanner", "reader"} {
						c := c01Case{Src: src, Kind: k}
						w.Count("evaluations", 1)
						w.Count("repetition_runs", 1)
						w.Count("traces_validated_against_impl", 1)
						if d := c01Judge(c); d != "" {
							w.Violation("", c, fmt.Sprintf("ParseCommands(%q) [%s]: %s", src, k, d))
						}
					}
				}
			}
			// alias VALUE space: every value of ≤ 3 (thorough 4) characters over the shell's significant characters for
			// one alias x (and a second alias y → "x " in front of it), used first, second and after an operator
			nv := 3
			if w.thorough() {
				nv = 4
			}
			genRunes([]rune("a \n;'#$(`\\|x\"<){}"), nv, func(rs []rune) {
				if len(rs) == 0 || !w.Mine() || w.TimeUp() {
					return
				}
				v := string(rs)
				w.Announce("alias x=" + strconv.Quote(v))
				w.Count("states", 1)
				for _, tbl := range []map[string]string{{"x": v}, {"x": v, "y": "x "}, {"x": v + " ", "a": v}} {
					for _, src := range []string{"x", "x a\n", "a; x", "y x\nx", "x x", "$(x)", "x <<E\nx\nE\n"} {
						for _, k := range []string{"string", "runescanner"} {
							c := c01Case{Src: src, Kind: k, Alias: tbl}
							w.Count("evaluations", 1)
							w.Count("alias_value_runs", 1)
							w.Count("traces_validated_against_impl", 1)
							if d := c01Judge(c); d != "" {
								w.Violation("", c, fmt.Sprintf("ParseCommands(%q) with aliases %v: %s", src, tbl, d))
							}
						}
					}
				}
			})
		},
		replay: func(raw json.RawMessage) error {
			var c c01Case
			if err := json.Unmarshal(raw, &c); err != nil {
				return err
			}
			if c.Kind == "schedule" {
				if c01ScheduleReplay == nil {
					return fmt.Errorf("a schedule case needs the binary built with -tags verif (./check replay uses it)")
				}
				return c01ScheduleReplay(c)
			}
			if c.Src == "" {
				var cr struct {
					In string `json:"crashed_in"`
				}
				json.Unmarshal(raw, &cr)
				c = c01Case{Src: cr.In, Kind: "runescanner"}
				fmt.Printf("replaying the source the crashed worker had announced: %q\n", c.Src)
			}
			if d := c01Judge(c); d != "" {
				return fmt.Errorf("%s", d)
			}
			return nil
		},
	})
}

// ---------------------------------------------------------------- C19

// walkNodes calls f for every ast.Node reachable from v.
func walkNodes(v reflect.Value, f func(n ast.Node), words func(w ast.Word)) {
	if !v.IsValid() {
		return
	}
	if v.CanInterface() {
		if w, ok := v.Interface().(ast.Word); ok && words != nil && len(w) > 0 {
			words(w)
		}
		if n, ok := v.Interface().(ast.Node); ok {
			if !(v.Kind() == reflect.Ptr && v.IsNil()) && !(v.Kind() == reflect.Interface && v.IsNil()) {
				f(n)
			}
		}
	}
	switch v.Kind() {
	case reflect.Interface, reflect.Ptr:
		if !v.IsNil() {
			walkNodes(v.Elem(), f, words)
		}
	case reflect.Struct:
		if v.Type() == posType {
			return
		}
		for i := 0; i < v.NumField(); i++ {
			if v.Type().Field(i).PkgPath == "" {
				walkNodes(v.Field(i), f, words)
			}
		}
	case reflect.Slice:
		for i := 0; i < v.Len(); i++ {
			walkNodes(v.Index(i), f, words)
		}
	}
}

func documentedError(err error) bool {
	switch err.(type) {
	case nil, parser.Error, interp.ArithExprError, interp.ParamExpError, *syntax.Error:
		return true
	}
	return err == pattern.NoMatch
}

var c19Configs []*printer.Config

var c19SeenWord = map[string]bool{}

// c19Modes: quick = each mode flag alone and Assign combined with each other flag; thorough = all 32 combinations
var c19Modes = []interp.ExpMode{0, interp.Arith, interp.Assign, interp.Literal, interp.Pattern, interp.Quote,
	interp.Assign | interp.Arith, interp.Assign | interp.Literal, interp.Assign | interp.Pattern, interp.Assign | interp.Quote}

func c19Downstream(w *W, src string) {
	c19Steps(src, func(k string) { w.Count(k, 1) }, func(c interface{}, detail string) { w.Violation("", c, detail) })
}

// c19Steps runs every downstream consumer on the AST parsed from src (shared by the run and the replay).
func c19Steps(src string, count func(string), violation func(c interface{}, detail string)) {
	cmds, comments, err := parser.ParseCommands(nil, "t", src)
	quiesce()
	if err != nil {
		return
	}
	w := c19Sink{count, violation}
	w.Count("accepted_asts", 1)
	what := ""
	func() {
		defer func() {
			if e := recover(); e != nil {
				w.Violation("", map[string]string{"source": src, "step": what}, fmt.Sprintf("%s panicked for the AST parsed from %q: %v", what, src, e))
			}
		}()
		var words []ast.Word
		what = "Pos()/End()"
		for _, c := range cmds {
			walkNodes(reflect.ValueOf(c), func(n ast.Node) { n.Pos(); n.End() }, func(wd ast.Word) { words = append(words, wd) })
		}
		for _, c := range comments {
			c.Pos()
			c.End()
		}
		w.Count("evaluations", 1)
		for ci, cfg := range c19Configs {
			what = fmt.Sprintf("Fprint (config %d)", ci)
			for _, c := range cmds {
				var b bytes.Buffer
				if e := cfg.Fprint(&b, c); e != nil {
					w.Violation("", map[string]string{"source": src, "step": what}, fmt.Sprintf("%s of the AST parsed from %q fails: %v", what, src, e))
				}
			}
			w.Count("evaluations", 1)
		}
		for _, wd := range words {
			// a word (position-free) is expanded once per worker: Expand depends on the word's structure only
			wdump := dumpAST(wd, false)
			if c19SeenWord[wdump] {
				continue
			}
			if len(c19SeenWord) > 2000000 {
				c19SeenWord = map[string]bool{}
			}
			c19SeenWord[wdump] = true
			w.Count("distinct_words_expanded", 1)
			for _, m := range c19Modes {
				what = fmt.Sprintf("Expand (mode %d) of %s", m, wdump)
				for _, args := range [][]string{{"p1", "p2"}, nil} {
					env := interp.NewExecEnv("sh", args...)
					if args == nil {
						what += " (no positional parameters, nounset)"
						env.Opts |= interp.NoUnset
					}
					_, e := env.Expand(wd, m)
					w.Count("evaluations", 1)
					if !documentedError(e) {
						w.Violation("", map[string]string{"source": src, "step": what}, fmt.Sprintf("%s returns an undocumented error type %T: %v", what, e, e))
					}
				}
			}
		}
	}()
}

type c19Sink struct {
	count     func(string)
	violation func(c interface{}, detail string)
}

func (s c19Sink) Count(k string, n int) { s.count(k) }
func (s c19Sink) Violation(class string, c interface{}, detail string) {
	s.violation(c, detail)
}

// c19Replay re-runs the entry point a recorded case names.
func c19Replay(raw json.RawMessage) error {
	var c struct {
		Source  *string `json:"source"`
		Indent  *int    `json:"indent"`
		Width   int     `json:"width"`
		Option  *int    `json:"option"`
		Eval    *string `json:"eval"`
		Pattern *string `json:"pattern"`
		Mode    *int    `json:"mode"`
		Subject string  `json:"subject"`
		Glob    *string `json:"glob"`
	}
	if err := json.Unmarshal(raw, &c); err != nil {
		return err
	}
	var first error
	guard := func(what string, f func() error) {
		defer func() {
			if e := recover(); e != nil && first == nil {
				first = fmt.Errorf("%s panicked: %v", what, e)
			}
		}()
		if err := f(); !documentedError(err) && first == nil {
			first = fmt.Errorf("%s returns an undocumented error type %T: %v", what, err, err)
		}
	}
	switch {
	case c.Source != nil && c.Indent != nil:
		cmds, _, err := parser.ParseCommands(nil, "t", *c.Source)
		quiesce()
		if err != nil || len(cmds) == 0 {
			return nil
		}
		cfg := &printer.Config{Indent: printer.Style(*c.Indent), Width: c.Width, Case: true}
		guard("Fprint", func() error { var b bytes.Buffer; return cfg.Fprint(&b, cmds[0]) })
	case c.Source != nil:
		c19Configs = nil
		for m := 0; m < 256; m++ {
			c19Configs = append(c19Configs, mkConfig(m))
		}
		dir, err := os.MkdirTemp("", "c19replay")
		if err == nil {
			defer os.RemoveAll(dir)
			os.WriteFile(filepath.Join(dir, "a"), nil, 0o644)
			os.Mkdir(filepath.Join(dir, "b"), 0o755)
			os.Chdir(dir)
			defer os.Chdir("/")
		}
		c19Steps(*c.Source, func(string) {}, func(_ interface{}, detail string) {
			if first == nil {
				first = fmt.Errorf("%s", detail)
			}
		})
	case c.Option != nil:
		guard("Option.String", func() error { _ = interp.Option(*c.Option).String(); return nil })
	case c.Eval != nil:
		env := interp.NewExecEnv("sh")
		env.Set("x", "5")
		env.Set("y", "abc")
		guard("Eval", func() error { _, e := env.Eval(*c.Eval); return e })
		quiesce()
	case c.Pattern != nil && c.Mode != nil:
		guard("Match", func() error { _, e := pattern.Match([]string{*c.Pattern}, pattern.Mode(*c.Mode), c.Subject); return e })
	case c.Pattern != nil:
		guard("Match", func() error {
			_, e := pattern.Match([]string{*c.Pattern, "a", *c.Pattern}, pattern.Prefix, "a")
			return e
		})
	case c.Glob != nil:
		guard("Glob", func() error { _, e := pattern.Glob(*c.Glob); return e })
	default:
		return fmt.Errorf("unrecognised C19 case %s", raw)
	}
	return first
}

func c19Run(w *W) {
	// Fprint configurations: quick = the full factorial of the options that select code paths, thorough = all 256
	c19Modes = nil
	for m := interp.ExpMode(0); m < 32; m++ { // every combination of the five mode flags
		c19Modes = append(c19Modes, m)
	}
	c19Configs = nil
	for m := 0; m < 256; m++ {
		if w.thorough() || m&3 == 0 && m&8 == 0 && m&16 == 0 {
			c19Configs = append(c19Configs, mkConfig(m))
		}
	}
	dir := filepath.Join(verifDir, "tmp", fmt.Sprintf("c19-%d", os.Getpid()))
	os.MkdirAll(dir, 0o755)
	defer os.RemoveAll(dir)
	os.WriteFile(filepath.Join(dir, "a"), nil, 0o644)
	os.Mkdir(filepath.Join(dir, "b"), 0o755)
	os.Chdir(dir)
	defer os.Chdir("/")
	guard := func(what string, c interface{}, f func() error) {
		defer func() {
			if e := recover(); e != nil {
				w.Violation("", c, fmt.Sprintf("%s panicked: %v", what, e))
			}
		}()
		w.Count("evaluations", 1)
		w.Count("traces_validated_against_impl", 1)
		if err := f(); !documentedError(err) {
			w.Violation("", c, fmt.Sprintf("%s returns an undocumented error type %T: %v", what, err, err))
		}
	}
	// (1) Option.String on every bit combination
	if w.Mine() {
		for o := 0; o < 1<<14; o++ {
			guard(fmt.Sprintf("Option(%d).String()", o), map[string]int{"option": o}, func() error { _ = interp.Option(o).String(); return nil })
		}
		w.Count("states", 1<<14)
	}
	// (2) Eval on arbitrary token strings
	n := 4
	if w.thorough() {
		n = 5
	}
	evalTok := []string{"1", "08", "x", "y", "=", "+", "/", "0", "++", "(", ")", "@", "?", ":", "&&", "<<", "-", "9223372036854775807", " ", "+="}
	var rec func(cur []string)
	rec = func(cur []string) {
		if len(cur) > 0 && w.Mine() && !w.TimeUp() {
			src := strings.Join(cur, "")
			w.Announce("Eval " + src)
			w.Count("states", 1)
			env := interp.NewExecEnv("sh")
			env.Set("x", "5")
			env.Set("y", "abc")
			guard(fmt.Sprintf("Eval(%q)", src), map[string]string{"eval": src}, func() error { _, e := env.Eval(src); return e })
			quiesce()
			w.Count("distinct_nontrivial", 1)
		}
		if len(cur) == n {
			return
		}
		for _, t := range evalTok {
			rec(append(cur, t))
		}
	}
	rec(nil)
	// (3) Match on arbitrary patterns, every mode bit combination
	subj := []string{"", "a", "ab", "a\nb", "é", "]"}
	genRunes([]rune("a*?[]!-\\.:=^"), n, func(p []rune) {
		if !w.Mine() || w.TimeUp() {
			return
		}
		ps := string(p)
		w.Announce("Match " + ps)
		w.Count("states", 1)
		for _, s := range subj {
			for m := 0; m < 16; m += 3 {
				guard(fmt.Sprintf("Match([%q], %d, %q)", ps, m, s), map[string]interface{}{"pattern": ps, "mode": m, "subject": s}, func() error {
					_, e := pattern.Match([]string{ps}, pattern.Mode(m), s)
					return e
				})
			}
		}
		guard(fmt.Sprintf("Match([%q %q], …)", ps, ps), map[string]interface{}{"pattern": ps}, func() error {
			_, e := pattern.Match([]string{ps, "a", ps}, pattern.Prefix, "a")
			return e
		})
	})
	// (4) Glob on arbitrary patterns
	genRunes([]rune("a*?[]/\\.b"), n, func(p []rune) {
		if !w.Mine() || w.TimeUp() {
			return
		}
		ps := string(p)
		if strings.HasPrefix(ps, "/") || strings.HasPrefix(ps, "\\/") {
			return
		}
		w.Announce("Glob " + ps)
		w.Count("states", 1)
		guard(fmt.Sprintf("Glob(%q)", ps), map[string]string{"glob": ps}, func() error { _, e := pattern.Glob(ps); return e })
	})
	// (5) every AST the parser returns for the C01 corpora
	parserCorpora(w, func(kind, src string) {
		w.Announce(src)
		w.Count("states", 1)
		c19Downstream(w, src)
	})
	// the generated programs of C05/C18 (deep structures, here-documents in every position, multi-line substitutions)
	seen := map[string]bool{}
	derivations(w.thorough(), func(name string, texts []string) {
		if name == "WN" || name == "D3" && !w.thorough() {
			return
		}
		key := strings.Join(texts, "\x00")
		if seen[key] || !w.Mine() || w.TimeUp() {
			seen[key] = true
			return
		}
		seen[key] = true
		ss := syms(append(append([]string{}, texts...), "\n")...)
		src := render(ss).src
		w.Announce(src)
		w.Count("states", 1)
		c19Downstream(w, src)
		if m := gramParse(ss); m.ok {
			ml := render(multiLine(ss, m)).src
			if ml != src {
				w.Announce(ml)
				c19Downstream(w, ml)
			}
		}
	})
	// the repetition family (counts above 9, deep nesting of every form)
	for n := 1; n <= 24; n++ {
		if !w.Mine() || w.TimeUp() {
			continue
		}
		for _, src := range repetitionSources(n) {
			w.Announce(src)
			w.Count("states", 1)
			c19Downstream(w, src)
		}
	}
	// oddities named by the property
	for _, src := range []string{"\\", "a \\", "''", `""`, "a <<E\nE\n", "a <<E\n\nE\n", "<<E\nE", "$", "a $", "`\\``", "${#}", "${#*}", "${#@}", "x= y=", "a<<''\n\n"} {
		if w.Mine() {
			c19Downstream(w, src)
		}
	}
	// (6) deep nesting × indentation styles (indentation buffers)
	if w.Mine() {
		for depth := 1; depth <= 40; depth++ {
			for _, open := range [][2]string{{"{", "}"}, {"(", ")"}, {"if a; then", "fi"}, {"while a; do", "done"}, {"case a in a)", ";; esac"}} {
				src := strings.Repeat(open[0]+"\n", depth) + "a\n" + strings.Repeat(open[1]+"\n", depth)
				cmds, _, err := parser.ParseCommands(nil, "t", src)
				quiesce()
				if err != nil {
					w.Note(fmt.Sprintf("deep nesting source rejected at depth %d: %v", depth, err))
					continue
				}
				for _, ind := range []printer.Style{printer.Tab, printer.Space} {
					for _, width := range []int{0, 1, 2, 4, 8, 16} {
						cfg := &printer.Config{Indent: ind, Width: width, Case: true}
						guard(fmt.Sprintf("Fprint depth=%d %q indent=%d width=%d", depth, open[0], ind, width), map[string]interface{}{"source": src, "indent": ind, "width": width}, func() error {
							var b bytes.Buffer
							return cfg.Fprint(&b, cmds[0])
						})
					}
				}
			}
		}
	}
}

func init() {
	register(&check{
		id:    "C19",
		level: "model_checking",
		procs: panicnilProcs,
		rule: "every AST the parser returns for the C01 corpora and for the derivation sets D0–D2, DH, word menu in two layouts → Pos()/End() of every node, Fprint under 16 (quick) / 256 (thorough) Configs, Expand of every distinct word (position-free) of the ASTs under all 32 combinations of the mode flags; " +
			"all token strings ≤ 4 (quick) / 5 over a 20-token alphabet for Eval; all patterns ≤ 4 / 5 over {a * ? [ ] ! - \\ . : = ^} × 6 subjects × mode combinations for Match; all patterns ≤ 4 / 5 over {a b * ? [ ] / \\ .} for Glob; " +
			"all 2^14 Option values; nesting depth 1–40 of 5 compound forms × 12 indentation styles; under GODEBUG=panicnil=0 and =1. non-trivial = Eval cases (the only entry point with its own goroutine)",
		assume: []string{"oracle: no panic, no process death, errors of the documented types (parser.Error, ArithExprError, ParamExpError, NoMatch, *regexp/syntax.Error)",
			"Expand runs in a scratch directory holding one file and one directory; command substitutions are not executed by Expand"},
		run:    c19Run,
		replay: c19Replay,
	})
}

// repetitionSources: one construct repeated or nested n times (shared by C01, C04, C05/C18, C07, C10, C19).
func repetitionSources(n int) []string {
	type rep struct{ open, unit, close string }
	reps := []rep{
		{"", "cat <<E\nx\nE\n", ""}, {"", "a; ", "\n"}, {"", "a | ", "b\n"}, {"", "a && ", "b\n"}, {"", "x=1 ", "a\n"}, {"a ", "$(b) ", "\n"}, {"a ", "`b` ", "\n"},
		{"a ", "'q' ", "\n"}, {"a ", "$((1)) ", "\n"}, {"a ", "${v:-w} ", "\n"}, {"a ", ">f ", "\n"}, {"", "# c\n", "a\n"}, {"", "\n", "a\n"}, {"a ", "\\\n", "b\n"},
		{"case x in ", "a) b ;; ", "esac\n"}, {"for i in ", "a ", "; do b; done\n"}, {"a ", "\"$v\" ", "\n"}, {"if a; then b; ", "elif c; then d; ", "fi\n"},
		{"a ", "$v", "\n"}, {"a ", "é", "\n"}, {"", "a;\n", ""}, {"a ", "<<E ", "\n" + strings.Repeat("x\nE\n", n)}, {"x=", "$v:~", "\n"}, {"a $((", "1+", "1))\n"}, {"((", "1+", "1))\n"},
	}
	nests := [][2]string{{"( ", " )"}, {"{ ", "; }"}, {"if a; then ", "; fi"}, {"while a; do ", "; done"}, {"$( ", " )"}, {"`", "`"}, {"\"", "\""}, {"${v:-", "}"}, {"case x in a) ", " ;; esac"}, {"f() ", ""}, {"! ", ""},
		{"for i in a; do ", "; done"}, {"a | ", ""}, {"$(( (", ") ))"}, {"{\n", "\n}"}, {"(\n", "\n)"}, {"if a\nthen\n", "\nfi"}}
	var srcs []string
	for _, r := range reps {
		srcs = append(srcs, r.open+strings.Repeat(r.unit, n)+r.close)
	}
	// n here-documents on one line, their bodies after it
	srcs = append(srcs, "cat"+strings.Repeat(" <<E", n)+"\n"+strings.Repeat("x\nE\n", n))
	srcs = append(srcs, "a $(cat"+strings.Repeat(" <<E", n)+"\n"+strings.Repeat("x\nE\n", n)+")\n")
	srcs = append(srcs, "{\n"+strings.Repeat("cat <<E\nx\nE\n", n)+"}\n")
	for _, ne := range nests {
		inner := "a"
		if strings.HasPrefix(ne[0], "$((") {
			inner = "1"
		}
		srcs = append(srcs, strings.Repeat(ne[0], n)+inner+strings.Repeat(ne[1], n)+"\n")
	}
	return srcs
}
