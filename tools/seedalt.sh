#!/bin/bash
# usage: tools/seedalt.sh <patch file> <base commit|HEAD> <check ids…>
# Runs the quick tier of the given checks against <base> + patch WITHOUT touching /repo's working tree:
# a scratch worktree of /repo gets the patch, a scratch mirror of /verif (sources, known findings) is bound to
# it (go.mod replace, verifDir), and both are removed afterwards.  Used while long runs occupy /repo; the
# result is what `git -C /repo apply <patch>; ./check …; git -C /repo reset --hard` gives.
# env: SEEDALT_TIER=thorough, VCHECK_BUDGET_S
export GOFLAGS=-mod=mod GOPROXY=off GOSUMDB=off GOTOOLCHAIN=local
patch=$(readlink -f "$1"); base="$2"; shift 2
tier=${SEEDALT_TIER:-quick}
d=$(mktemp -d /tmp/seedalt.XXXXXX)
trap 'git -C /repo worktree remove --force "$d/wt" >/dev/null 2>&1; rm -rf "$d"; git -C /repo worktree prune' EXIT
git -C /repo worktree add -q --detach "$d/wt" "$base" || exit 2
if [ "$patch" != /dev/null ]; then
  (cd "$d/wt" && git apply --3way "$patch" >/dev/null 2>&1) || { echo "PATCH-DOES-NOT-APPLY $patch"; exit 2; }
fi
mkdir -p "$d/verif" && src=${SEEDALT_SRC:-/verif}; cp -r $src/go.mod $src/vcheck $src/known_findings.txt "$d/verif/"
sed -i "s#=> /repo#=> $d/wt#" "$d/verif/go.mod"
sed -i "s#const verifDir = \"/verif\"#const verifDir = \"$d/verif\"#" "$d/verif/vcheck/engine.go"
cd "$d/verif" || exit 2
go build -o bin/vcheck ./vcheck || { echo "BUILD-FAILED"; exit 2; }
go build -tags verif -o bin/vcheck-verif ./vcheck || { echo "BUILD-FAILED (verif)"; exit 2; }
for id in "$@"; do
  bin=bin/vcheck
  case "$id" in
    C06) go build -race -tags verif -o bin/vcheck-race ./vcheck || { echo "BUILD-FAILED (race)"; exit 2; }; bin=bin/vcheck-verif;;
    C08) bin=bin/vcheck-verif;;
  esac
  out=$($bin run "$id" "$tier" 2>&1); rc=$?
  echo "$id rc=$rc $(echo "$out" | grep -c '^VIOLATION') VIOLATION lines | $(echo "$out" | grep '^VIOLATION' | head -1 | cut -c1-50) | $(echo "$out" | tail -1 | cut -c1-140)"
  if [ -n "$SEEDALT_SHOW" ]; then for f in $(echo "$out" | grep -o 'replay=[^ ]*' | head -${SEEDALT_SHOW} | cut -d= -f2); do python3 -c "import json,sys;print('   ',json.load(open(sys.argv[1]))['detail'][:400])" "$f"; done; fi
done
