package main

// C15 — quoted text survives parsing and expansion unchanged.
//
// Space: all strings ≤ N over 20 significant characters × 4 quoting styles ×
// 6 expansion modes × adversarial environments (IFS made of the alphabet's
// characters, HOME set, positional parameters set, a working directory that
// contains files named like the strings).  Oracle: exactly one field equal
// to the string (Pattern mode: a pattern whose elements are all literal and
// spell the string, by the pattern model of C12).

import (
	"encoding/json"
	"fmt"
	"os"
	"path/filepath"
	"strings"

	"github.com/hattya/go.sh/ast"
	"github.com/hattya/go.sh/interp"
	"github.com/hattya/go.sh/parser"
	"github.com/hattya/go.sh/pattern"
)

type c15Case struct {
	S     string `json:"s"`
	Style string `json:"style"`
	Src   string `json:"src"`
	Mode  uint   `json:"mode"`
	Env   string `json:"env"`
}

var c15Alpha = []rune("a*?[]\\'\"$`~ \n#=é/.\r\t:")

func c15Quote(s, style string) (string, bool) {
	var b strings.Builder
	switch style {
	case "single":
		if strings.ContainsRune(s, '\'') {
			return "", false
		}
		return "'" + s + "'", true
	case "double":
		b.WriteByte('"')
		for _, r := range s {
			switch r {
			case '$', '`', '"', '\\':
				b.WriteByte('\\')
			}
			b.WriteRune(r)
		}
		b.WriteByte('"')
		return b.String(), true
	case "backslash":
		if s == "" || strings.ContainsRune(s, '\n') {
			return "", false // backslash-newline is a line continuation, not a quoted newline
		}
		for _, r := range s {
			b.WriteByte('\\')
			b.WriteRune(r)
		}
		return b.String(), true
	case "mixed":
		if len([]rune(s)) < 2 {
			return "", false
		}
		for i, r := range []rune(s) {
			c := string(r)
			switch {
			case i%3 == 0 && r != '\n':
				b.WriteString("\\" + c)
			case i%3 == 1 && r != '\'' || r == '\n' && i%3 == 0:
				b.WriteString("'" + c + "'")
			default:
				q, _ := c15Quote(c, "double")
				b.WriteString(q)
			}
		}
		return b.String(), true
	}
	return "", false
}

var c15Modes = []interp.ExpMode{0, interp.Arith, interp.Assign, interp.Literal, interp.Pattern, interp.Quote}

var c15Envs = []string{"default", "ifs", "home", "noglob-off-args", "noglob-nounset"}

func c15Env(name string) *interp.ExecEnv {
	env := interp.NewExecEnv("sh", "*", "a", "$1")
	env.Set("HOME", "/home/x")
	env.Set("a", "VALUE")
	switch name {
	case "ifs":
		env.Set("IFS", "a*é\\ ~='\"")
	case "home":
		env.Set("HOME", "a")
		env.Set("IFS", "~/")
	case "noglob-off-args":
		env.Unset("IFS")
		env.Unset("HOME")
	case "noglob-nounset":
		env.Opts |= interp.NoGlob | interp.NoUnset
	}
	return env
}

func c15Judge(c c15Case, w ast.Word) string {
	env := c15Env(c.Env)
	var got []string
	var err error
	var pan interface{}
	func() {
		defer func() { pan = recover() }()
		got, err = env.Expand(w, interp.ExpMode(c.Mode))
	}()
	switch {
	case pan != nil:
		return fmt.Sprintf("Expand(%s) panicked: %v", c.Src, pan)
	case err != nil:
		return fmt.Sprintf("Expand(%s) fails: %v", c.Src, err)
	case len(got) != 1:
		return fmt.Sprintf("Expand(%s, mode %d, env %s) gives %d fields %q, expected exactly one field %q", c.Src, c.Mode, c.Env, len(got), got, c.S)
	}
	if interp.ExpMode(c.Mode)&interp.Pattern != 0 {
		es, st := parsePattern([]rune(got[0]))
		if st != patWellFormed {
			return fmt.Sprintf("Expand(%s, Pattern) = %q is not a well-formed pattern", c.Src, got[0])
		}
		var b strings.Builder
		for _, e := range es {
			if e.kind != 0 {
				return fmt.Sprintf("Expand(%s, Pattern) = %q: the quoted character became an active pattern element; it must match only %q", c.Src, got[0], c.S)
			}
			b.WriteRune(e.c)
		}
		if b.String() != c.S {
			return fmt.Sprintf("Expand(%s, Pattern) = %q matches %q, not %q", c.Src, got[0], b.String(), c.S)
		}
		// and the pattern matcher itself takes it that way: it matches s as a whole and none of its neighbours
		if c.S != "" {
			if m, e := pattern.Match([]string{got[0]}, pattern.Prefix|pattern.Largest, c.S); e != nil || m != c.S {
				return fmt.Sprintf("Expand(%s, Pattern) = %q, but Match([%q], Prefix|Largest, %q) = %q, %v: the quoted text does not match itself", c.Src, got[0], got[0], c.S, m, e)
			}
			rs := []rune(c.S)
			for _, other := range []string{string(rs[:len(rs)-1]), c.S + string(rs[len(rs)-1]), string(rs[1:]) + string(rs[0])} {
				if other == c.S {
					continue
				}
				if m, e := pattern.Match([]string{got[0]}, pattern.Prefix|pattern.Largest, other); e == nil && m == other && other != "" {
					return fmt.Sprintf("Expand(%s, Pattern) = %q, but Match([%q], Prefix|Largest, %q) matches all of %q: the quoted text matches something other than itself", c.Src, got[0], got[0], other, other)
				}
			}
		}
		return ""
	}
	if got[0] != c.S {
		return fmt.Sprintf("Expand(%s, mode %d, env %s) = %q, expected %q", c.Src, c.Mode, c.Env, got[0], c.S)
	}
	return ""
}

func c15Setup() (string, error) {
	dir := filepath.Join(verifDir, "tmp", fmt.Sprintf("c15-%d", os.Getpid()))
	if err := os.MkdirAll(dir, 0o755); err != nil {
		return "", err
	}
	// files named after the alphabet's glob-significant strings, so that any
	// text wrongly treated as a pattern finds something to match
	names := []rune("a*?[]\\~=#$'\"é ")
	var all []string
	genRunes(names, 2, func(s []rune) {
		if len(s) > 0 {
			all = append(all, string(s))
		}
	})
	all = append(all, "aaa", "a a", "VALUE", "x")
	for _, n := range all {
		if n == "." || n == ".." {
			continue
		}
		if err := os.WriteFile(filepath.Join(dir, n), nil, 0o644); err != nil {
			return "", err
		}
	}
	return dir, os.Chdir(dir)
}

func c15Run(w *W) {
	dir, err := c15Setup()
	if err != nil {
		w.Note("cannot create the adversarial directory: " + err.Error())
		w.res.Incomplete = true
		return
	}
	defer os.RemoveAll(dir)
	n := 4
	if w.thorough() {
		n = 5
	}
	// long strings: one character, and each pair of two, repeated up to a length of 40
	for rep := 5; rep <= 40; rep += 5 {
		if !w.Mine() || w.TimeUp() {
			continue
		}
		var strs []string
		for _, a := range c15Alpha {
			strs = append(strs, strings.Repeat(string(a), rep))
			for _, b := range []rune("a$\\ '") {
				if a != b {
					strs = append(strs, strings.Repeat(string(a)+string(b), rep/2))
				}
			}
		}
		for _, s := range strs {
			w.Count("states", 1)
			for _, style := range []string{"single", "double", "backslash", "mixed"} {
				src, ok := c15Quote(s, style)
				if !ok {
					continue
				}
				word, err := c13Parse(src)
				if err != nil {
					w.Violation("", c15Case{S: s, Style: style, Src: src}, fmt.Sprintf("the parser rejects the quoted word %s: %v", src, err))
					continue
				}
				for _, m := range c15Modes {
					c := c15Case{S: s, Style: style, Src: src, Mode: uint(m), Env: "ifs"}
					w.Count("evaluations", 1)
					w.Count("long_strings", 1)
					w.Count("traces_validated_against_impl", 1)
					w.Count("distinct_nontrivial", 1)
					if d := c15Judge(c, word); d != "" {
						w.Violation("", c, d)
					}
				}
			}
		}
	}
	for _, fam := range [][]rune{[]rune("a{}2,"), []rune("a()|+"), []rune("a^$.é")} {
		genRunes(fam, 5, func(rs []rune) {
			if len(rs) == 0 || !w.Mine() || w.TimeUp() {
				return
			}
			s := string(rs)
			w.Count("states", 1)
			for _, style := range []string{"single", "double", "backslash"} {
				src, ok := c15Quote(s, style)
				if !ok {
					continue
				}
				word, err := c13Parse(src)
				if err != nil {
					w.Violation("", c15Case{S: s, Style: style, Src: src}, fmt.Sprintf("the parser rejects the quoted word %s: %v", src, err))
					continue
				}
				for _, m := range []interp.ExpMode{0, interp.Pattern} {
					c := c15Case{S: s, Style: style, Src: src, Mode: uint(m), Env: "default"}
					w.Count("evaluations", 1)
					w.Count("regexp_metacharacter_strings", 1)
					w.Count("traces_validated_against_impl", 1)
					w.Count("distinct_nontrivial", 1)
					if d := c15Judge(c, word); d != "" {
						w.Violation("", c, d)
					}
				}
			}
		})
	}
	// the quoted string as the word of a parameter expansion that is itself NOT quoted: ${u:-'s'}, ${u-"s"}, ${a:+\s}
	genRunes(c15Alpha, 3, func(rs []rune) {
		if !w.Mine() || w.TimeUp() {
			return
		}
		s := string(rs)
		w.Count("states", 1)
		for _, style := range []string{"single", "double", "backslash"} {
			q, ok := c15Quote(s, style)
			if !ok {
				continue
			}
			for _, host := range []string{"${u:-%s}", "${u-%s}", "${a:+%s}"} {
				src := fmt.Sprintf(host, q)
				w.Announce(src)
				word, err := c13Parse(src)
				if err != nil {
					w.Violation("", c15Case{S: s, Style: style, Src: src}, fmt.Sprintf("the parser rejects the word %s: %v", src, err))
					continue
				}
				for _, m := range c15Modes {
					for _, e := range []string{"ifs", "noglob-nounset"} {
						c := c15Case{S: s, Style: style, Src: src, Mode: uint(m), Env: e}
						w.Count("evaluations", 1)
						w.Count("nested_in_parameter_expansion", 1)
						w.Count("traces_validated_against_impl", 1)
						if d := c15Judge(c, word); d != "" {
							w.Violation("", c, d)
						}
					}
				}
			}
		}
	})
	genRunes(c15Alpha, n, func(rs []rune) {
		if !w.Mine() || w.TimeUp() {
			return
		}
		s := string(rs)
		w.Count("states", 1)
		for _, style := range []string{"single", "double", "backslash", "mixed"} {
			src, ok := c15Quote(s, style)
			if !ok {
				continue
			}
			w.Announce(src)
			word, err := c13Parse(src)
			if err != nil {
				w.Violation("", c15Case{S: s, Style: style, Src: src}, fmt.Sprintf("the parser rejects the quoted word %s: %v", src, err))
				continue
			}
			for _, m := range c15Modes {
				for _, e := range c15Envs {
					c := c15Case{S: s, Style: style, Src: src, Mode: uint(m), Env: e}
					w.Count("evaluations", 1)
					w.Count("transitions", 1)
					w.Count("traces_validated_against_impl", 1)
					if strings.ContainsAny(s, "*?[\\$`~ \n'\"") {
						w.Count("distinct_nontrivial", 1)
					}
					if d := c15Judge(c, word); d != "" {
						w.Violation("", c, d)
					}
				}
			}
			w.Sample(map[string]string{"s": s, "style": style, "src": src})
		}
	})
}

func init() {
	register(&check{
		id:    "C15",
		level: "model_checking",
		rule: "every string ≤ 4 (quick) / 5 (thorough) over {a * ? [ ] \\ ' \" $ ` ~ space newline # = é / . :} × {single, double, backslash-each, mixed} quoting × 6 ExpModes × 4 environments " +
			"(IFS made of the alphabet, HOME set, positional parameters set, working directory with files named like the strings); the strings ≤ 3 also as the quoted word of ${u:-…}, ${u-…} (u unset) and ${a:+…} (a set) outside double quotes; non-trivial = the string contains a character that is special to some expansion",
		assume: []string{"backslash-newline is excluded from the backslash style (POSIX removes it, it is not a quoted newline)", "Pattern mode is judged with the pattern model of C12"},
		run:    c15Run,
		replay: func(raw json.RawMessage) error {
			var c c15Case
			if err := json.Unmarshal(raw, &c); err != nil {
				return err
			}
			dir, err := c15Setup()
			if err != nil {
				return err
			}
			defer os.RemoveAll(dir)
			word, err := c13Parse(c.Src)
			if err != nil {
				return err
			}
			if d := c15Judge(c, word); d != "" {
				return fmt.Errorf("%s", d)
			}
			return nil
		},
	})
	_ = parser.ParseCommand
}
