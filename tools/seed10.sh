#!/bin/bash
# usage: tools/seed4.sh <Cxx> [more check ids]   ingest a round-10 seed from /tmp/seedwork10, confirm it, run the property's check against it
id=$1; shift
src=/tmp/seedwork10/$id/out; dst=/verif/seeded/$id-r10
[ -f $src/patch.diff ] || { echo "$id: no patch.diff"; exit 1; }
mkdir -p $dst && cp -r $src/. $dst/
SEEDBASE=${SEEDBASE:-HEAD} /verif/tools/seedverify.sh $id-r10
SEEDALT_SHOW=1 SEEDALT_SRC=${SEEDALT_SRC:-/verif} /verif/tools/seedalt.sh $dst/patch.diff ${SEEDBASE:-HEAD} $id "$@"
