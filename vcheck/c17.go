package main

// C17 — alias substitution equals textual replacement at command position and terminates.
//
// Space: all alias tables with ≤ 2 (quick) / 3 entries over names {x, y, z}
// and a 16-value menu × all symbol strings ≤ 3 (quick) / 4 over a 13-symbol
// alphabet.  Oracle: the grammar model performs the textual replacement on
// the symbol string (command position, recursion guard, trailing-blank rule);
// the unfolded text is parsed by the real parser with no aliases; the two
// position-free ASTs must be equal; every run terminates.

import (
	"encoding/json"
	"fmt"
	"github.com/hattya/go.sh/parser"
	"sort"
	"strconv"
	"strings"

	"github.com/hattya/go.sh/ast"
	"github.com/hattya/go.sh/interp"
)

var c17Values = []string{"a", "a b", "a ", "y", "y ", "x", "x ", "a ;", "a |", "if", "b=1", "b=1 ", "> f", "'x'", "a  ", "y \t", "y ; y", "y ; z", "a $(c)", "`c`", "a $((1)) ;", "a ${v:-w}", "a $(c) ", "! a", "!"}
var c17Sigma = []string{"x", "y", "a", "'x'", "x=1", ";", "|", "if", "then", "fi", "(", ")", ">"}

type c17Case struct {
	Aliases map[string]string `json:"aliases"`
	Syms    []string          `json:"symbols"`
	Src     string            `json:"source"`
	Unfold  string            `json:"unfolded"`
}

type tsym struct {
	s     sym
	noexp map[string]bool // aliases this token stems from (never expanded again inside their own expansion)
	also  bool            // the preceding alias value ended in a blank: examine this word too
	// a command substitution whose inner command list is unfolded as well: open + inner + close
	open, close string
	in          []tsym
}

// symOf: the symbol a token stands for (a substitution token is rendered from its inner list).
func (t tsym) symOf() sym {
	if t.open == "" {
		return t.s
	}
	inner := make([]sym, len(t.in))
	for i := range t.in {
		inner[i] = t.in[i].symOf()
	}
	text := t.open + render(inner).src + t.close
	return sym{text: text, kind: kWord, parts: func() ast.Word { return ast.Word{wLit(text)} }}
}

// substToken recognises the substitution symbols whose inner command is a single word ($(x), `x`).
func substToken(text string, no map[string]bool) (tsym, bool) {
	for _, oc := range [][2]string{{"$(", ")"}, {"`", "`"}} {
		if strings.HasPrefix(text, oc[0]) && strings.HasSuffix(text, oc[1]) && len(text) > len(oc[0])+len(oc[1]) {
			inner := text[len(oc[0]) : len(text)-len(oc[1])]
			if s, ok := symTable[inner]; ok && s.kind == kWord && isNameStr(inner) {
				return tsym{open: oc[0], close: oc[1], noexp: no, in: []tsym{{s: s, noexp: no}}}, true
			}
		}
	}
	return tsym{}, false
}

func plainWordName(s sym) (string, bool) {
	if s.kind != kWord {
		return "", false
	}
	w := s.parts()
	if len(w) != 1 {
		return "", false
	}
	l, ok := w[0].(*ast.Lit)
	if !ok || l.Value != s.text {
		return "", false
	}
	return s.text, true
}

// unfold performs the textual replacement the property describes.
func unfold(ss []sym, table map[string]string) (out []sym, steps int) {
	ts := make([]tsym, len(ss))
	for i, s := range ss {
		if st, ok := substToken(s.text, nil); ok {
			ts[i] = st
		} else {
			ts[i] = tsym{s: s}
		}
	}
	res, steps := unfoldTS(ts, table, 0)
	if res == nil {
		return nil, steps
	}
	out = make([]sym, len(res))
	for i := range res {
		out[i] = res[i].symOf()
	}
	return out, steps
}

func unfoldTS(ts []tsym, table map[string]string, depth int) ([]tsym, int) {
	steps := 0
	for steps = 0; steps < 200; steps++ {
		// the command lists inside substitutions first (they inherit what their token stems from)
		if depth < 6 {
			for i := range ts {
				if ts[i].open != "" {
					in, n := unfoldTS(ts[i].in, table, depth+1)
					if in == nil {
						return nil, n
					}
					ts[i].in = in
				}
			}
		}
		cur := make([]sym, len(ts))
		for i := range ts {
			cur[i] = ts[i].symOf()
		}
		m := gramParse(cur)
		// leftmost replaceable word: in command-name position, or flagged by a trailing blank
		at := -1
		for i := range ts {
			if !(m.cmdNameAt[i] || ts[i].also) {
				continue
			}
			name, ok := "", false
			if ts[i].open == "" {
				name, ok = plainWordName(ts[i].s)
			}
			if !ok {
				ts[i].also = false
				continue
			}
			if m.cmdNameAt[i] && reservedWords[name] && !ts[i].also {
				continue
			}
			if _, isAlias := table[name]; !isAlias || ts[i].noexp[name] {
				ts[i].also = false
				continue
			}
			at = i
			break
		}
		if at < 0 {
			return ts, steps
		}
		name := ts[at].s.text
		val := table[name]
		no := map[string]bool{name: true}
		for k := range ts[at].noexp {
			no[k] = true
		}
		var repl []tsym
		for _, t := range strings.Fields(val) {
			if st, ok := substToken(t, no); ok {
				repl = append(repl, st)
			} else {
				repl = append(repl, tsym{s: symTable[t], noexp: no})
			}
		}
		if ts[at].also && len(repl) > 0 {
			repl[0].also = true // the replacement stands where the examined word stood and is examined in turn
		}
		rest := append([]tsym{}, ts[at+1:]...)
		if strings.HasSuffix(val, " ") || strings.HasSuffix(val, "\t") {
			if len(rest) > 0 {
				rest[0].also = true
			}
		}
		ts = append(append(append([]tsym{}, ts[:at]...), repl...), rest...)
	}
	return nil, steps
}

func c17Judge(c *c17Case, ss []sym) string {
	un, steps := unfold(ss, c.Aliases)
	if un == nil {
		return fmt.Sprintf("the reference replacement did not terminate within %d steps (harness problem)", steps)
	}
	c.Unfold = render(un).src
	return c17Compare(c)
}

// c17Subst: the command list INNER stands inside a command substitution of the source; the words in command position
// there are replaced like anywhere else.  The substitution is an opaque word for the outer replacement.
func c17Subst(c *c17Case, form string, outer0 string, inner []sym) string {
	un, steps := unfold(inner, c.Aliases)
	if un == nil {
		return fmt.Sprintf("the reference replacement did not terminate within %d steps (harness problem)", steps)
	}
	mk := func(text string) sym {
		return sym{text: text, kind: kWord, parts: func() ast.Word { return ast.Word{wLit(text)} }}
	}
	srcWord := mk(fmt.Sprintf(form, render(inner).src))
	unWord := mk(fmt.Sprintf(form, render(un).src))
	var outerSrc, outerUn []sym
	if outer0 != "" {
		outerSrc = append(outerSrc, symTable[outer0])
		outerUn = append(outerUn, symTable[outer0])
	}
	outerSrc = append(outerSrc, srcWord)
	outerUn = append(outerUn, unWord)
	c.Src = render(outerSrc).src
	un2, steps := unfold(outerUn, c.Aliases)
	if un2 == nil {
		return fmt.Sprintf("the reference replacement did not terminate within %d steps (harness problem)", steps)
	}
	c.Unfold = render(un2).src
	return c17Compare(c)
}

func c17Compare(c *c17Case) string {
	env := interp.NewExecEnv("sh")
	for k, v := range c.Aliases {
		env.Aliases[k] = v
	}
	got := runParseEnv(env, c.Src)
	want := runParse(c.Unfold)
	switch {
	case got.pan != nil:
		return fmt.Sprintf("parsing with aliases panicked: %v", got.pan)
	case (got.err == nil) != (want.err == nil):
		return fmt.Sprintf("with aliases: err=%v %s; the unfolded text %q: err=%v %s", got.err, dumpAST(got.cmds, false), c.Unfold, want.err, dumpAST(want.cmds, false))
	case got.err != nil:
		return ""
	}
	if g, w := dumpAST(got.cmds, false), dumpAST(want.cmds, false); g != w && !(len(got.cmds) == 0 && len(want.cmds) == 0) {
		return fmt.Sprintf("with aliases the program is %s; the unfolded text %q is %s", g, c.Unfold, w)
	}
	return ""
}

func c17Tables(maxEntries int) []map[string]string {
	names := []string{"x", "y", "z"}
	var out []map[string]string
	var rec func(i int, cur map[string]string)
	rec = func(i int, cur map[string]string) {
		if i == len(names) {
			if len(cur) > 0 && len(cur) <= maxEntries {
				m := map[string]string{}
				for k, v := range cur {
					m[k] = v
				}
				out = append(out, m)
			}
			return
		}
		rec(i+1, cur)
		if len(cur) < maxEntries {
			for _, v := range c17Values {
				cur[names[i]] = v
				rec(i+1, cur)
				delete(cur, names[i])
			}
		}
	}
	rec(0, map[string]string{})
	return out
}

func tableString(t map[string]string) string {
	var ks []string
	for k := range t {
		ks = append(ks, k)
	}
	sort.Strings(ks)
	var b strings.Builder
	for _, k := range ks {
		fmt.Fprintf(&b, "%s=%q ", k, t[k])
	}
	return b.String()
}

func c17Run(w *W) {
	nt, ns := 2, 3
	tables := c17Tables(nt)
	// chains through three aliases (a value ending in a blank, then a chain of two) are in the quick tier too
	for _, t := range []map[string]string{
		{"x": "a ", "y": "z b", "z": "c"}, {"x": "a ", "y": "z ", "z": "x"}, {"x": "y ", "y": "z ", "z": "x "}, {"x": "y", "y": "z", "z": "x"},
		{"x": "y ", "y": "a z", "z": "b"}, {"x": "y ", "y": "a z ", "z": "b"}, {"x": "y ", "y": "a x", "z": "b"}, {"x": "y ", "y": "a z", "z": "b "},
		{"x": "y ;", "y": "z |", "z": "a"}, {"x": "b=1 ", "y": "z", "z": "a "}, {"x": "if", "y": "z ", "z": "a ;"}, {"x": "> f", "y": "x ", "z": "y "},
	} {
		tables = append(tables, t)
	}
	// a substitution inside a value that names an alias whose expansion is still in progress: never expanded again
	for _, t := range []map[string]string{{"x": "a $(x)"}, {"x": "y", "y": "a $(x)"}, {"x": "y ", "y": "$(x) b"}, {"x": "y", "y": "a `x`"}, {"x": "y ; a", "y": "z", "z": "b $(x)"}} {
		tables = append(tables, t)
	}
	// values holding several commands that are themselves aliases (an outer alias still being read while an inner
	// chain of aliases ends): three-entry tables x → {y, z}, y → z, z → text
	for _, x := range []string{"y ; z", "y ; y", "y | z", "z ; y ; z", "y ; x", "( y ) ; z", "y ; a ; z"} {
		for _, y := range []string{"z", "z ", "a ; z", "b=1 z"} {
			for _, z := range []string{"a", "a ", "x", "b=1 ", "a ;"} {
				tables = append(tables, map[string]string{"x": x, "y": y, "z": z})
			}
		}
	}
	var strs [][]sym
	genSyms(c17Sigma, ns, func(ss []sym) { strs = append(strs, append([]sym{}, ss...)) })
	var strs4 [][]sym
	if w.thorough() {
		genSyms(c17Sigma, 4, func(ss []sym) {
			if len(ss) == 4 {
				strs4 = append(strs4, append([]sym{}, ss...))
			}
		})
		tables = append(tables, c17Tables(3)[len(c17Tables(2)):]...)
	}
	for ti, t := range tables {
		if !w.Mine() || w.TimeUp() {
			continue
		}
		w.Count("states", 1)
		set := strs
		if w.thorough() && len(t) <= 2 && ti < 700 {
			set = append(append([][]sym{}, strs...), strs4...)
		}
		for _, ss := range set {
			r := render(ss)
			c := &c17Case{Aliases: t, Syms: symTexts(ss), Src: r.src}
			w.Announce(tableString(t) + "| " + r.src)
			w.Count("evaluations", 1)
			w.Count("transitions", 1)
			w.Count("traces_validated_against_impl", 1)
			d := c17Judge(c, ss)
			if c.Unfold != c.Src {
				w.Count("distinct_nontrivial", 1)
				w.Sample(*c)
			}
			if d != "" {
				w.Violation("", *c, fmt.Sprintf("aliases {%s} source %q: %s", tableString(t), r.src, d))
			}
		}
	}
	// longer sentences: the alias names at every kind of position of the compound commands (patterns of case items,
	// for words, redirection targets and function names are never replaced; the command after ')' / do / then is)
	var one []map[string]string
	for _, v := range c17Values {
		one = append(one, map[string]string{"x": v})
	}
	one = append(one, map[string]string{"x": "y ", "y": "a"}, map[string]string{"x": "a ", "y": "b c"}, map[string]string{"y": "b c"})
	for _, t := range one {
		for _, texts := range [][]string{
			{"case", "x", "in", "x", ")", "x", ";;", "esac"}, {"case", "x", "in", "(", "x", ")", "x", ";;", "x", "|", "y", ")", "y", ";;", "esac"}, {"case", "y", "in", "y", ")", ";;", "esac"},
			{"for", "x", "in", "x", "y", ";", "do", "x", ";", "done"}, {"if", "x", ";", "then", "x", "y", ";", "else", "y", ";", "fi"}, {"while", "x", ";", "do", "y", ";", "done"},
			{"{", "x", ";", "}", ">", "x"}, {"(", "x", ")", "|", "y"}, {"a", "&&", "x", "||", "y"}, {"x", "(", ")", "{", "x", ";", "}"}, {"a", ">", "x", "y"}, {"x=1", "x", "y"},
		} {
			if !w.Mine() || w.TimeUp() {
				continue
			}
			ss := syms(append(append([]string{}, texts...), "\n")...)
			r := render(ss)
			c := &c17Case{Aliases: t, Syms: symTexts(ss), Src: r.src}
			w.Announce(tableString(t) + "| " + r.src)
			w.Count("states", 1)
			w.Count("evaluations", 1)
			w.Count("compound_sentences", 1)
			w.Count("traces_validated_against_impl", 1)
			d := c17Judge(c, ss)
			if c.Unfold != c.Src {
				w.Count("distinct_nontrivial", 1)
			}
			if d != "" {
				w.Violation("", *c, fmt.Sprintf("aliases {%s} source %q: %s", tableString(t), r.src, d))
			}
		}
	}
	c17SubstRun(w, tables)
	c17TextRun(w)
}

// c17TextRun: one alias x whose value is ARBITRARY text (it may end inside a quote, a substitution, a comment, hold
// newlines and operators).  The source begins with the word x followed by a blank or newline, so the program must be the
// one obtained from the text with that first x replaced by the value — compared as successive ParseCommands results.
func c17TextRun(w *W) {
	nv := 3
	if w.thorough() {
		nv = 4
	}
	parseAllEnv := func(env *interp.ExecEnv, src string) (string, bool) {
		r := strings.NewReader(src)
		var b strings.Builder
		for r.Len() > 0 {
			var cmds []ast.Command
			var err error
			var pan interface{}
			func() {
				defer func() { pan = recover() }()
				cmds, _, err = parser.ParseCommands(env, "t", r)
			}()
			quiesce()
			if pan != nil {
				return fmt.Sprintf("panic: %v", pan), false
			}
			if err != nil {
				return b.String() + " error", true
			}
			if len(cmds) > 0 { // (a comment-only or blank line gives an empty result of its own or not: not compared)
				b.WriteString(dumpAST(cmds, false) + "; ")
			}
		}
		return b.String(), true
	}
	genRunes([]rune("a \n;'#$(`\\|x\"<){}!="), nv, func(rs []rune) {
		if len(rs) == 0 || !w.Mine() || w.TimeUp() {
			return
		}
		v := string(rs)
		if strings.HasSuffix(v, "\\") || strings.TrimRight(v, " \t") == "" || strings.Contains(v, "\n") {
			return // the character after the value would be escaped / nothing to substitute / several commands (one call returns one command: C01 only)
		}
		w.Count("states", 1)
		w.Announce("alias x=" + strconv.Quote(v))
		// the alias is called x, or has a name that is legal for an alias but is not a Name (XBD 3.231)
		for _, an := range []string{"x", "x-1", "..", "2x", ",x", "x+"} {
			if an != "x" && len(rs) > 2 {
				continue // the other names with the values of ≤ 2 characters
			}
			env := interp.NewExecEnv("sh")
			env.Aliases[an] = v
			for _, rest := range []string{"", " a\n", "\nb\n", " | b\n", " b\")'`}\n", " <<E\ny\nE\n"} {
				src := an + rest
				tail := rest
				if tail == "" {
					tail = " "
				}
				text := strings.TrimRight(v, " \t") + " " + strings.TrimLeft(tail, " ")
				if strings.HasPrefix(tail, "\n") {
					text = strings.TrimRight(v, " \t") + " " + tail
				}
				w.Count("evaluations", 1)
				w.Count("text_level_alias_values", 1)
				w.Count("traces_validated_against_impl", 1)
				w.Count("distinct_nontrivial", 1)
				got, ok1 := parseAllEnv(env, src)
				want, ok2 := parseAllEnv(nil, text)
				c := c17Case{Aliases: map[string]string{an: v}, Syms: []string{"%text"}, Src: src, Unfold: text}
				switch {
				case !ok1 || !ok2:
					w.Violation("", c, fmt.Sprintf("alias x=%q source %q: %s / text %q: %s", v, src, got, text, want))
				case got != want:
					w.Violation("alias-text", c, fmt.Sprintf("alias %s=%q source %q gives %s; the text with the word replaced, %q, gives %s", an, v, src, got, text, want))
				}
			}
		}
	})
}

// c17SubstRun: command substitutions in the source whose commands name aliases.
func c17SubstRun(w *W, tables []map[string]string) {
	var inners [][]sym
	genSyms([]string{"x", "y", "a", ";", "|", "'x'"}, 2, func(ss []sym) { inners = append(inners, append([]sym{}, ss...)) })
	inners = append(inners, syms("a", ";", "x"), syms("x", "|", "y"), syms("(", "x", ")"), syms("{", "x", ";", "}"), syms("if", "x", ";", "then", "y", ";", "fi"))
	for _, t := range tables {
		if len(t) > 2 || !w.Mine() || w.TimeUp() {
			continue
		}
		skip := false
		for _, v := range t {
			if strings.ContainsAny(v, "()`") {
				skip = true // a value with its own substitution inside a substitution: the text forms would need re-quoting
			}
		}
		if skip {
			continue
		}
		w.Count("states", 1)
		for _, inner := range inners {
			for _, f := range []struct{ form, outer string }{{"$( %s)", "a"}, {"$( %s)", "x"}, {"`%s`", "a"}, {"\"$( %s)\"", "a"}, {"$( %s)", ""}, {"${v:-$( %s)}", "a"}} {
				c := &c17Case{Aliases: t, Syms: append([]string{f.form, f.outer}, symTexts(inner)...)}
				w.Count("evaluations", 1)
				w.Count("substitution_sources", 1)
				w.Count("transitions", 1)
				w.Count("traces_validated_against_impl", 1)
				d := c17Subst(c, f.form, f.outer, inner)
				w.Announce(tableString(t) + "| " + c.Src)
				if c.Unfold != c.Src {
					w.Count("distinct_nontrivial", 1)
				}
				if d != "" {
					w.Violation("alias-inside-substitution", *c, fmt.Sprintf("aliases {%s} source %q: %s", tableString(t), c.Src, d))
				}
			}
		}
	}
}

func init() {
	register(&check{
		id:    "C17",
		level: "model_checking",
		rule: "every alias table with ≤ 2 entries (thorough: ≤ 3) over names {x y z} and the 25-value menu (incl. values with $( ), backquote, $(( )) and ${ } expansions) {a, 'a b', 'a ', y, 'y ', x, 'x ', 'a ;', 'a |', if, b=1, 'b=1 ', '> f', 'x', 'a  ' (two blanks), 'y <blank><tab>', 'y ; y', 'y ; z'} plus 8 fixed three-entry chain/cycle tables and 140 three-entry tables whose outer value holds several commands that are aliases (x → y…z, y → z, z → text) × every symbol string ≤ 3 (thorough: ≤ 4 for the tables of ≤ 2 entries) over {x y a 'x' x=1 ; | if then fi ( ) >}; command substitutions in the source ($( ), backquotes, inside double quotes and ${v:-…}) holding every command list ≤ 2 symbols over {x y a ; | 'x'} and 5 compound forms, for every table of ≤ 2 entries; text level: one alias whose value is every string of ≤ 3 (thorough 4) characters over 19 significant characters (no newline) × 6 continuations of the source, compared with the text in which the word is replaced; " +
			"non-trivial = the reference replacement changes the text",
		assume: []string{"the reference replacement (c17.go unfold) uses the grammar model to find command-name positions; the unfolded text is parsed by the real parser without aliases, so only the substitution itself is modelled",
			"alias values containing newlines are exercised for termination only (C01)"},
		run: c17Run,
		replay: func(raw json.RawMessage) error {
			var c c17Case
			if err := json.Unmarshal(raw, &c); err != nil {
				return err
			}
			if len(c.Syms) >= 2 && strings.Contains(c.Syms[0], "%s") {
				// a substitution source: Syms = form, outer word, inner symbols…
				if d := c17Subst(&c, c.Syms[0], c.Syms[1], syms(c.Syms[2:]...)); d != "" {
					return fmt.Errorf("%s", d)
				}
				return nil
			}
			if d := c17Judge(&c, syms(c.Syms...)); d != "" {
				return fmt.Errorf("%s", d)
			}
			return nil
		},
	})
}
