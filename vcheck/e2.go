//go:build verif

package main

// E2 — controlled scheduler and stateless DFS over the hooked lexer/parser
// goroutines of go.sh (parser and interp), built with -tags verif.
//
// Every hooked operation is a point: the goroutine reports (kind, lexer) to
// the controller and parks on its private resume channel.  Exactly the
// goroutines the controller has released are running; everybody else is
// parked, so between two controller decisions the code is deterministic.

import (
	"fmt"
	"os"
	"runtime"
	"strings"
	"sync"
	"sync/atomic"
	"time"

	"github.com/hattya/go.sh/interp"
	"github.com/hattya/go.sh/parser"
)

// unified point kinds
const (
	kStart = iota
	kExit
	kSpawn
	kRecv
	kSend
	kSendPost
	kErr
	kReadErr
	kCopyErr
	kJoin
	kHPush
	kHPop
	kHWait
	kReturn
	kSet
	kMainStart
	kMainDone
)

var kindNames = []string{"start", "exit", "spawn", "recv", "send", "send.post", "err", "readerr", "copyerr", "join", "hpush", "hpop", "hwait", "return", "set", "main.start", "main.done"}

type hev struct {
	kind         int
	lex, parent  interface{}
	queue        interface{}
	cancelClosed func() bool
	wakeReady    func() bool
}

type thread struct {
	id     int
	gid    uint64
	resume chan bool
	ev     *hev // point it is parked at (nil: running or done)
	done   bool
	lex    interface{} // lexer whose run() this thread executes (nil for main)
}

type arrival struct {
	gid uint64
	ev  *hev
}

type sched struct {
	arrive  chan arrival
	threads []*thread
	byGid   map[uint64]*thread
	byLex   map[interface{}]*thread
	mu      sync.Mutex
	resume  map[uint64]chan bool
	known   map[uint64]bool
	spawned map[interface{}]bool

	prefix []int
	trace  []int
	nalt   []int
	labels []string
	last   int // id of the thread that ran last

	returned   bool     // main passed its return point
	post       []string // lexer activity after the return
	aliveAtRet int
	blocked    bool // a released goroutine did not come back (operation the scheduler does not own)
}

var curSched *sched

func goid() uint64 {
	var buf [64]byte
	n := runtime.Stack(buf[:], false)
	var id uint64
	for _, c := range buf[10:n] {
		if c < '0' || c > '9' {
			break
		}
		id = id*10 + uint64(c-'0')
	}
	return id
}

func (s *sched) chanFor(g uint64) chan bool {
	s.mu.Lock()
	c, ok := s.resume[g]
	if !ok {
		c = make(chan bool)
		s.resume[g] = c
	}
	s.mu.Unlock()
	return c
}

// hook is called by the instrumented code; returns the cancel decision for send points.
func (s *sched) hook(ev *hev) bool {
	g := goid()
	// goroutines that do not belong to this execution (a lexer left running by an earlier, free-running
	// or abandoned call) are not controlled: they run free, as without a controller
	s.mu.Lock()
	switch {
	case s.known[g]:
		if ev.kind == kSpawn {
			s.spawned[ev.lex] = true
		}
	case ev.kind == kStart && s.spawned[ev.lex]:
		s.known[g] = true
	case ev.kind == kMainStart:
		s.known[g] = true
	default:
		s.mu.Unlock()
		return true // "do not interfere": vsend leaves the cancel channel alone
	}
	s.mu.Unlock()
	s.arrive <- arrival{g, ev}
	if ev.kind == kSpawn || ev.kind == kExit || ev.kind == kMainDone {
		return false
	}
	return <-s.chanFor(g)
}

// Delay runs: a free run (no controller: the real channel operations decide who may proceed) in which the goroutine
// that reaches the i-th hooked point yields until every other goroutine has run as far as it can.  With GOMAXPROCS=1
// this is one deterministic deviation from the default schedule per point; unlike the controlled exploration it
// does not depend on the scheduler's model of which operation is enabled, so it also sees synchronisation that a
// change added next to the hooked operations.
var delayAt, delayCount int64

func delayPoint() {
	if atomic.LoadInt64(&delayAt) == 0 {
		return
	}
	if atomic.AddInt64(&delayCount, 1) == atomic.LoadInt64(&delayAt) {
		for j := 0; j < 200; j++ {
			runtime.Gosched()
		}
	}
}

// delayRuns runs body once to count its hooked points and then once per point with the delay there; visit gets
// every observation.
func delayRuns(body func(afterReturn *bool) string, visit func(point int, obs string)) int {
	settle := func() {
		for i := 0; i < 200 && runtime.NumGoroutine() > 3; i++ {
			runtime.Gosched()
		}
	}
	dummy := false
	atomic.StoreInt64(&delayCount, 0)
	atomic.StoreInt64(&delayAt, 1<<62)
	visit(0, body(&dummy))
	settle()
	h := int(atomic.LoadInt64(&delayCount))
	if h > 300 {
		h = 300
	}
	for i := 1; i <= h; i++ {
		atomic.StoreInt64(&delayCount, 0)
		atomic.StoreInt64(&delayAt, int64(i))
		visit(i, body(&dummy))
		atomic.StoreInt64(&delayAt, 1<<62)
		settle()
	}
	atomic.StoreInt64(&delayAt, 0)
	return h
}

func installHooks() {
	parser.VerifHook = func(e *parser.VerifEvent) bool {
		s := curSched
		if s == nil {
			delayPoint()
			return true // free running: vsend must not hide the cancel channel
		}
		k := e.Kind // parser's numbering equals the unified one up to kReturn
		return s.hook(&hev{kind: k, lex: e.Lex, parent: e.Parent, queue: e.Queue, cancelClosed: e.CancelClosed, wakeReady: e.WakeReady})
	}
	interp.VerifHook = func(e *interp.VerifEvent) bool {
		s := curSched
		if s == nil {
			delayPoint()
			return true
		}
		var k int
		switch e.Kind {
		case interp.VStart:
			k = kStart
		case interp.VExit:
			k = kExit
		case interp.VSpawn:
			k = kSpawn
		case interp.VRecv:
			k = kRecv
		case interp.VSend:
			k = kSend
		case interp.VSendPost:
			k = kSendPost
		case interp.VErr:
			k = kErr
		case interp.VSet:
			k = kSet
		case interp.VReturn:
			k = kReturn
		case interp.VJoin:
			k = kJoin
		}
		return s.hook(&hev{kind: k, lex: e.Lex, cancelClosed: e.CancelClosed})
	}
}

type transition struct {
	kind string // run, handoff, cancel
	a, b *thread
}

func (t transition) label() string {
	switch t.kind {
	case "handoff":
		return fmt.Sprintf("T%d→T%d handoff", t.a.id, t.b.id)
	case "cancel":
		return fmt.Sprintf("T%d send:cancel", t.a.id)
	}
	return fmt.Sprintf("T%d %s", t.a.id, kindNames[t.a.ev.kind])
}

func (s *sched) enabled() []transition {
	var ts []transition
	order := make([]*thread, 0, len(s.threads))
	for _, t := range s.threads {
		if t.id == s.last {
			order = append(order, t)
		}
	}
	for _, t := range s.threads {
		if t.id != s.last {
			order = append(order, t)
		}
	}
	for _, t := range order {
		if t.done || t.ev == nil {
			continue
		}
		switch t.ev.kind {
		case kRecv:
			if lt := s.byLex[t.ev.lex]; lt != nil && lt.done {
				ts = append(ts, transition{"run", t, nil})
			}
		case kSend:
			for _, r := range s.threads {
				if !r.done && r.ev != nil && r.ev.kind == kRecv && r.ev.lex == t.ev.lex {
					ts = append(ts, transition{"handoff", t, r})
				}
			}
			if t.ev.cancelClosed() {
				ts = append(ts, transition{"cancel", t, nil})
			}
		case kHWait:
			if t.ev.wakeReady() {
				ts = append(ts, transition{"run", t, nil})
			}
		case kJoin:
			if lt := s.byLex[t.ev.lex]; lt != nil && lt.done {
				ts = append(ts, transition{"run", t, nil})
			}
		default:
			ts = append(ts, transition{"run", t, nil})
		}
	}
	return ts
}

// collect waits until n released goroutines have parked again or exited.
func (s *sched) collect(n int) bool {
	// A released goroutine that has not come back after 20 s is blocked in an operation the scheduler does not own
	// — unless this process was runnable all the while and did not get a CPU (busy machine): then go on waiting.
	const window = 20 * time.Second
	timeout := time.NewTimer(window)
	defer timeout.Stop()
	self := []int{os.Getpid()}
	var s0 procSample // taken when the first window expires (reading /proc on every call would dominate the run)
	for n > 0 {
		var a arrival
		select {
		case a = <-s.arrive:
		case <-timeout.C:
			s1 := sampleProcs(self)
			if !s0.ok || s1.ok && (time.Duration((s1.runNs+s1.waitNs)-(s0.runNs+s0.waitNs)) > window/4 || s1.blkio != s0.blkio) {
				s0 = s1
				timeout.Reset(window)
				continue
			}
			s.blocked = true
			return false
		}
		if a.ev.kind == kSpawn {
			t := &thread{id: len(s.threads), lex: a.ev.lex}
			s.threads = append(s.threads, t)
			s.byLex[a.ev.lex] = t
			n++ // the new goroutine will report its start
			continue
		}
		t := s.byGid[a.gid]
		if t == nil {
			t = s.byLex[a.ev.lex]
			if t == nil || a.ev.kind != kStart || t.gid != 0 {
				panic(fmt.Sprintf("e2: unknown goroutine %d at %s", a.gid, kindNames[a.ev.kind]))
			}
			t.gid = a.gid
			s.byGid[a.gid] = t
		}
		if a.ev.kind == kExit || a.ev.kind == kMainDone {
			t.done = true
			t.ev = nil
		} else {
			t.ev = a.ev
		}
		if s.returned && t.id != 0 {
			s.post = append(s.post, fmt.Sprintf("T%d:%s", t.id, kindNames[a.ev.kind]))
		}
		n--
	}
	return true
}

func (s *sched) release(t *thread, decision bool) {
	t.ev = nil
	s.chanFor(t.gid) <- decision
}

type execResult struct {
	obs       string // what the caller observed (set by the body)
	deadlock  bool
	blocked   bool
	trace     []int
	nalt      []int
	labels    []string
	post      []string // lexer activity after the caller's return point
	lateReads int
	alive     int  // lexer threads not finished when the caller returned
	topAlive  bool // the top-level lexer (first thread spawned by the caller) was among them
	stuck     int  // threads parked forever at the end
	steps     int
}

// runOnce executes body under the controller, replaying prefix and then
// always taking choice 0.  body runs in its own goroutine (thread 0) and
// returns the observation string.
func runOnce(prefix []int, body func(afterReturn *bool) string) execResult {
	s := &sched{arrive: make(chan arrival), byGid: map[uint64]*thread{}, byLex: map[interface{}]*thread{}, resume: map[uint64]chan bool{}, known: map[uint64]bool{}, spawned: map[interface{}]bool{}, prefix: prefix}
	curSched = s
	main := &thread{id: 0}
	s.threads = []*thread{main}
	var res execResult
	obsCh := make(chan string, 1)
	gidCh := make(chan uint64, 1)
	go func() {
		g := goid()
		gidCh <- g
		s.hook(&hev{kind: kMainStart})
		o := body(&s.returned)
		obsCh <- o
		s.hook(&hev{kind: kMainDone})
	}()
	main.gid = <-gidCh
	s.byGid[main.gid] = main
	if !s.collect(1) {
		res.blocked = true
		return res
	}
	for {
		if main.ev != nil && main.ev.kind == kReturn && false {
		}
		ts := s.enabled()
		if len(ts) == 0 {
			for _, t := range s.threads {
				if !t.done {
					res.stuck++
				}
			}
			if !main.done {
				res.deadlock = true
			}
			break
		}
		k := 0
		if len(s.trace) < len(s.prefix) {
			k = s.prefix[len(s.trace)]
			if k >= len(ts) {
				panic(fmt.Sprintf("e2: replay divergence at step %d: choice %d of %d", len(s.trace), k, len(ts)))
			}
		}
		tr := ts[k]
		s.trace = append(s.trace, k)
		s.nalt = append(s.nalt, len(ts))
		s.labels = append(s.labels, tr.label())
		s.last = tr.a.id
		ok := true
		switch tr.kind {
		case "run":
			if tr.a.id == 0 && tr.a.ev.kind == kReturn {
				// the caller is about to read the result slots
				for _, t := range s.threads {
					if t.id != 0 && !t.done {
						res.alive++
						if t.id == 1 {
							res.topAlive = true
						}
					}
				}
				s.returned = true
			}
			s.release(tr.a, false)
			ok = s.collect(1)
		case "cancel":
			s.release(tr.a, true)
			ok = s.collect(1)
		case "handoff":
			s.release(tr.a, false)
			s.release(tr.b, false)
			ok = s.collect(2)
		}
		if !ok {
			res.blocked = true
			break
		}
		if len(s.trace) > 5000 {
			res.blocked = true
			break
		}
	}
	if main.done {
		res.obs = <-obsCh
	}
	res.trace, res.nalt, res.labels, res.post = s.trace, s.nalt, s.labels, s.post
	res.steps = len(s.trace)
	curSched = nil
	return res
}

// explore runs body under every schedule (bound < 0) or under every schedule
// with at most bound preemptions.  visit is called for every execution.
func explore(body func(afterReturn *bool) string, bound int, maxExec int, visit func(r execResult)) (executions int, complete bool) {
	complete = true
	stop := false
	var rec func(prefix []int, preempt int)
	rec = func(prefix []int, preempt int) {
		if executions >= maxExec {
			complete = false
			return
		}
		if stop {
			return
		}
		r := runOnce(prefix, body)
		executions++
		visit(r)
		if r.blocked {
			// a goroutine is stuck in an operation the scheduler does not own: every further schedule
			// of this input would wait for the 20 s limit again
			complete = false
			stop = true
		}
		if stop {
			return
		}
		for i := len(prefix); i < len(r.trace); i++ {
			for alt := 1; alt < r.nalt[i]; alt++ {
				cost := preempt
				// taking an alternative while choice 0 continues the thread that ran last is a preemption
				if bound >= 0 {
					cost++
					if cost > bound {
						continue
					}
				}
				p := append(append([]int{}, r.trace[:i]...), alt)
				rec(p, cost)
			}
		}
	}
	rec(nil, 0)
	return
}

func traceString(r execResult) string {
	return strings.Join(r.labels, " ; ")
}
