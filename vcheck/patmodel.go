package main

// Reference model of the shell pattern notation (XCU 2.13), written from the
// property statement and the POSIX text, not from go.sh's translation to
// regular expressions.  A direct backtracking matcher.

import "unicode"

type pelem struct {
	kind  int // 0 literal, 1 '?', 2 '*', 3 bracket expression
	c     rune
	neg   bool
	items []pitem
}

type pitem struct {
	lo, hi rune
	class  string // non-empty: a [:class:]
}

const (
	patWellFormed = iota
	patMalformed  // an error is required
	patGray       // POSIX leaves it open: an error or the model's answer
	patGrayAny    // "[." "[=" "[:" without its terminator inside a bracket expression: anything but a panic
)

var posixClasses = map[string]func(rune) bool{
	"alpha":  func(r rune) bool { return r < 128 && unicode.IsLetter(r) },
	"digit":  func(r rune) bool { return '0' <= r && r <= '9' },
	"alnum":  func(r rune) bool { return r < 128 && (unicode.IsLetter(r) || unicode.IsDigit(r)) },
	"upper":  func(r rune) bool { return 'A' <= r && r <= 'Z' },
	"lower":  func(r rune) bool { return 'a' <= r && r <= 'z' },
	"space":  func(r rune) bool { return r == ' ' || ('\t' <= r && r <= '\r') },
	"blank":  func(r rune) bool { return r == ' ' || r == '\t' },
	"punct":  func(r rune) bool { return r < 128 && r > 32 && r != 127 && !unicode.IsLetter(r) && !unicode.IsDigit(r) },
	"print":  func(r rune) bool { return 32 <= r && r < 127 },
	"graph":  func(r rune) bool { return 32 < r && r < 127 },
	"cntrl":  func(r rune) bool { return r < 32 || r == 127 },
	"xdigit": func(r rune) bool { return '0' <= r && r <= '9' || 'a' <= r && r <= 'f' || 'A' <= r && r <= 'F' },
}

// parsePattern parses a pattern into elements and classifies it.
func parsePattern(p []rune) ([]pelem, int) {
	var out []pelem
	status := patWellFormed
	for i := 0; i < len(p); {
		switch p[i] {
		case '?':
			out = append(out, pelem{kind: 1})
			i++
		case '*':
			out = append(out, pelem{kind: 2})
			i++
		case '\\':
			if i+1 >= len(p) {
				return nil, patMalformed
			}
			out = append(out, pelem{kind: 0, c: p[i+1]})
			i += 2
		case '[':
			j := i + 1
			e := pelem{kind: 3}
			if j < len(p) && (p[j] == '!' || p[j] == '^') {
				e.neg = true
				j++
			}
			first := true
			closed := false
			for j < len(p) {
				c := p[j]
				if c == ']' && !first {
					closed = true
					j++
					break
				}
				first = false
				if c == '[' && j+1 < len(p) && (p[j+1] == ':' || p[j+1] == '.' || p[j+1] == '=') {
					// [:class:], [.coll.], [=equiv=]
					d := p[j+1]
					k := j + 2
					for k+1 < len(p) && !(p[k] == d && p[k+1] == ']') {
						k++
					}
					if k+1 >= len(p) {
						// unterminated: POSIX leaves it unspecified
						status = patGrayAny
						e.items = append(e.items, pitem{lo: c, hi: c})
						j++
						continue
					}
					name := string(p[j+2 : k])
					if d == ':' {
						if _, ok := posixClasses[name]; ok {
							e.items = append(e.items, pitem{class: name})
						} else {
							status = grayer(status)
						}
					} else {
						status = grayer(status)
						r := []rune(name)
						if len(r) == 1 {
							e.items = append(e.items, pitem{lo: r[0], hi: r[0]})
						}
					}
					j = k + 2
					// a class as range end point is unspecified
					if j+1 < len(p) && p[j] == '-' && p[j+1] != ']' {
						status = patGray
					}
					continue
				}
				if c == '\\' {
					if j+1 >= len(p) {
						return nil, patMalformed
					}
					j++
					c = p[j]
				}
				// range?
				if j+2 < len(p) && p[j+1] == '-' && p[j+2] != ']' {
					hi := p[j+2]
					k := j + 3
					if hi == '\\' {
						if j+3 >= len(p) {
							return nil, patMalformed
						}
						hi = p[j+3]
						k = j + 4
					} else if hi == '[' && j+3 < len(p) && (p[j+3] == ':' || p[j+3] == '.' || p[j+3] == '=') {
						status = patGray
					}
					if hi < c {
						status = patGray
					}
					e.items = append(e.items, pitem{lo: c, hi: hi})
					j = k
					continue
				}
				e.items = append(e.items, pitem{lo: c, hi: c})
				j++
			}
			if !closed {
				return nil, patMalformed
			}
			out = append(out, e)
			i = j
		default:
			out = append(out, pelem{kind: 0, c: p[i]})
			i++
		}
	}
	return out, status
}

func grayer(st int) int {
	if st == patGrayAny {
		return st
	}
	return patGray
}

func (e *pelem) matchRune(r rune) bool {
	switch e.kind {
	case 0:
		return r == e.c
	case 1:
		return true
	case 3:
		in := false
		for _, it := range e.items {
			if it.class != "" {
				if posixClasses[it.class](r) {
					in = true
				}
			} else if it.lo <= r && r <= it.hi {
				in = true
			}
		}
		return in != e.neg
	}
	return false
}

// matchWhole reports whether the pattern matches the whole of s.
func matchWhole(es []pelem, s []rune) bool {
	if len(es) == 0 {
		return len(s) == 0
	}
	if es[0].kind == 2 {
		for k := 0; k <= len(s); k++ {
			if matchWhole(es[1:], s[k:]) {
				return true
			}
		}
		return false
	}
	return len(s) > 0 && es[0].matchRune(s[0]) && matchWhole(es[1:], s[1:])
}

// refMatch computes what Match must return for one or more patterns: the
// shortest/longest prefix/suffix of s matched as a whole by one of them.
func refMatch(pats [][]pelem, prefix, smallest bool, s []rune) (string, bool) {
	n := len(s)
	try := func(k int) (string, bool) {
		for _, es := range pats {
			if prefix {
				if matchWhole(es, s[:k]) {
					return string(s[:k]), true
				}
			} else if matchWhole(es, s[n-k:]) {
				return string(s[n-k:]), true
			}
		}
		return "", false
	}
	if smallest {
		for k := 0; k <= n; k++ {
			if m, ok := try(k); ok {
				return m, true
			}
		}
	} else {
		for k := n; k >= 0; k-- {
			if m, ok := try(k); ok {
				return m, true
			}
		}
	}
	return "", false
}

// genRunes calls f for every string of length 0..n over alpha, in
// length-lexicographic (DFS pre-order) order.
func genRunes(alpha []rune, n int, f func([]rune)) {
	cur := make([]rune, 0, n)
	var rec func()
	rec = func() {
		f(cur)
		if len(cur) == n {
			return
		}
		for _, c := range alpha {
			cur = append(cur, c)
			rec()
			cur = cur[:len(cur)-1]
		}
	}
	rec()
}
