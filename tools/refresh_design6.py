#!/usr/bin/env python3
"""Rewrites the last column (quick evaluations / wall) of the DESIGN.md §6 table from /verif/evidence/*.json (quick tier)."""
import json, re, sys
path = sys.argv[1] if len(sys.argv) > 1 else '/verif/DESIGN.md'
s = open(path).read()
def sci(n):
    e = len(str(int(n))) - 1
    return f"{n/10**e:.1f}·10^{e}"
out = []
in6 = False
for line in s.split('\n'):
    if line.startswith('## 6.'):
        in6 = True
    elif line.startswith('## 7.'):
        in6 = False
    m = re.match(r'^\| (C\d\d) \|', line)
    if in6 and m:
        e = json.load(open(f'/verif/evidence/{m.group(1)}.json'))
        if e.get('tier') == 'quick':
            cells = line.rstrip().rstrip('|').split(' | ')
            old = cells[-1]
            unit = ''
            mm = re.match(r'^[0-9.·^]+( [a-z]+)? /', old.strip())
            if mm and mm.group(1):
                unit = mm.group(1)
            cells[-1] = f"{sci(e['coverage']['evaluations'])}{unit} / {round(e['wall_s'])} s"
            line = ' | '.join(cells) + ' |'
    out.append(line)
open(path, 'w').write('\n'.join(out))
