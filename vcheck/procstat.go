package main

// Load-robust hang detection.
//
// "No progress for two minutes of wall-clock time" is not evidence of a hang
// on a machine that is busy with something else: a starved or swapped-out
// worker makes no progress either.  What distinguishes a hang is what the
// kernel says the process was doing meanwhile (/proc, Linux):
//
//   - livelock: the worker (with its children) has consumed the limit in CPU
//     time since its last progress;
//   - blocked: for the whole limit the worker was idle — none of its threads
//     runnable or in uninterruptible sleep at any sample, next to no time spent
//     running or waiting for a CPU, no block-I/O delay.
//
// A worker that is runnable but does not get a CPU accumulates run-queue
// waiting time (schedstat), so it is neither; it is simply waited for.

import (
	"os"
	"path/filepath"
	"strconv"
	"strings"
)

type procSample struct {
	runNs, waitNs uint64 // Σ over the threads of the process tree
	blkio         uint64 // Σ delayacct_blkio_ticks
	active        bool   // a thread was runnable (R) or in uninterruptible sleep (D) when sampled
	ok            bool
}

func procTree(pid int) []int {
	pids := []int{pid}
	for i := 0; i < len(pids); i++ {
		tasks, _ := filepath.Glob("/proc/" + strconv.Itoa(pids[i]) + "/task/*/children")
		for _, f := range tasks {
			b, err := os.ReadFile(f)
			if err != nil {
				continue
			}
			for _, c := range strings.Fields(string(b)) {
				if p, err := strconv.Atoi(c); err == nil {
					pids = append(pids, p)
				}
			}
		}
	}
	return pids
}

func sampleProcs(pids []int) procSample {
	var s procSample
	for _, pid := range pids {
		dirs, _ := filepath.Glob("/proc/" + strconv.Itoa(pid) + "/task/*")
		for _, d := range dirs {
			if b, err := os.ReadFile(d + "/schedstat"); err == nil {
				f := strings.Fields(string(b))
				if len(f) >= 2 {
					r, _ := strconv.ParseUint(f[0], 10, 64)
					w, _ := strconv.ParseUint(f[1], 10, 64)
					s.runNs += r
					s.waitNs += w
					s.ok = true
				}
			}
			if b, err := os.ReadFile(d + "/stat"); err == nil {
				t := string(b)
				if k := strings.LastIndexByte(t, ')'); k >= 0 {
					f := strings.Fields(t[k+1:])
					if len(f) > 0 && (f[0] == "R" || f[0] == "D") {
						s.active = true
					}
					if len(f) > 39 {
						v, _ := strconv.ParseUint(f[39], 10, 64)
						s.blkio += v
					}
				}
			}
		}
	}
	return s
}
