package main

// Reflection based serialisation of go.sh AST values: with positions (purity
// checks, schedule observations) or position-free (skeleton comparison).

import (
	"fmt"
	"reflect"
	"strings"

	"github.com/hattya/go.sh/ast"
)

var posType = reflect.TypeOf(ast.Pos{})

var optionalPos = map[string]bool{"Pipeline.Bang": true, "ForClause.In": true, "ForClause.Semicolon": true, "CaseItem.Lparen": true, "CaseItem.Break": true}

type dumpOpt struct {
	pos bool // include ast.Pos fields
}

func dumpAST(v interface{}, withPos bool) string {
	var b strings.Builder
	dumpValue(&b, reflect.ValueOf(v), dumpOpt{pos: withPos})
	return b.String()
}

func dumpValue(b *strings.Builder, v reflect.Value, o dumpOpt) {
	if !v.IsValid() {
		b.WriteString("nil")
		return
	}
	switch v.Kind() {
	case reflect.Interface:
		if v.IsNil() {
			b.WriteString("nil")
			return
		}
		dumpValue(b, v.Elem(), o)
	case reflect.Ptr:
		if v.IsNil() {
			b.WriteString("nil")
			return
		}
		dumpValue(b, v.Elem(), o)
	case reflect.Struct:
		if v.Type() == posType {
			fmt.Fprintf(b, "%d:%d", v.Field(0).Int(), v.Field(1).Int())
			return
		}
		b.WriteString(v.Type().Name())
		b.WriteByte('{')
		first := true
		for i := 0; i < v.NumField(); i++ {
			f := v.Field(i)
			if f.Type() == posType && !o.pos {
				// optional tokens: keep only whether they are present
				if k := v.Type().Name() + "." + v.Type().Field(i).Name; optionalPos[k] {
					if !first {
						b.WriteByte(' ')
					}
					first = false
					if f.Field(0).Int() == 0 && f.Field(1).Int() == 0 {
						b.WriteString(v.Type().Field(i).Name + "=absent")
					} else {
						b.WriteString(v.Type().Field(i).Name + "=present")
					}
				}
				continue
			}
			if !o.pos && f.Kind() == reflect.Slice && f.Len() == 0 && !(v.Type().Name() == "ParamExp" && v.Type().Field(i).Name == "Word") {
				// nil and empty are the same thing in a skeleton (except ParamExp.Word, where nil means ${#p})
				if !first {
					b.WriteByte(' ')
				}
				first = false
				b.WriteString(v.Type().Field(i).Name + "=[]")
				continue
			}
			if !first {
				b.WriteByte(' ')
			}
			first = false
			b.WriteString(v.Type().Field(i).Name)
			b.WriteByte('=')
			dumpValue(b, f, o)
		}
		b.WriteByte('}')
	case reflect.Slice:
		if v.IsNil() {
			b.WriteString("nil")
			return
		}
		if v.Type().Name() != "" {
			b.WriteString(v.Type().Name())
		}
		b.WriteByte('[')
		for i := 0; i < v.Len(); i++ {
			if i > 0 {
				b.WriteByte(' ')
			}
			dumpValue(b, v.Index(i), o)
		}
		b.WriteByte(']')
	case reflect.String:
		fmt.Fprintf(b, "%q", v.String())
	case reflect.Bool:
		fmt.Fprintf(b, "%v", v.Bool())
	case reflect.Int, reflect.Int64, reflect.Int32:
		fmt.Fprintf(b, "%d", v.Int())
	case reflect.Uint, reflect.Uint32, reflect.Uint64:
		fmt.Fprintf(b, "%d", v.Uint())
	default:
		fmt.Fprintf(b, "<%s>", v.Kind())
	}
}
