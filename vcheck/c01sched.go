//go:build verif

package main

// C01, schedule dimension: "never blocks forever" must hold under every
// interleaving of the lexer and parser goroutines, not only under the one the
// Go runtime happens to choose.  The controlled scheduler of e2.go explores
// every schedule with ≤ 1 (thorough 2) preemptions of a menu of sources in
// which the two sides wait for each other (here-document queue, nested
// lexers of substitutions, error hand-off); the oracle is termination only —
// what the call returns under each schedule is C06's and C08's business.

import (
	"fmt"
)

func init() { c01SchedulePhase, c01ScheduleReplay = c01Schedules, c01SchedReplay }

func c01ScheduleSources() []string {
	var srcs []string
	seen := map[string]bool{}
	add := func(s string) {
		if !seen[s] {
			seen[s] = true
			srcs = append(srcs, s)
		}
	}
	for _, t := range c08Templates {
		n := c08Sites(t)
		sites := make([]c08Site, n)
		for i := range sites {
			sites[i] = c08Site{1, "<<", "E", "E", false, []string{"x"}}
		}
		add(c08Render(t, sites))
	}
	for n := 1; n <= 2; n++ {
		for _, s := range repetitionSources(n) {
			add(s)
		}
	}
	for _, s := range []string{"a | | $( b ; )\nc\n", "a `b $(c) d` e\n", "a $(b `c`) | | d\n", "a $( 'q\n", "cat 3<<A\nfoo\n", "a <<E 3<<F\nx\nE\ny\n", "b $(a 3<<A\nb\n",
		"a <<E\n", "a <<E\nx\n", "$(a <<E\n", "a )\n", "if a; fi\n", "a ${v\n", "a \"$(b\n"} {
		add(s)
	}
	return srcs
}

func c01Schedules(w *W) {
	installHooks()
	bound, maxExec := 1, 20000
	if w.thorough() {
		bound, maxExec = 2, 200000
	}
	for _, src := range c01ScheduleSources() {
		if !w.Mine() || w.TimeUp() {
			continue
		}
		w.Announce("schedules of " + src)
		sum := c06Explore(c06ParseBody(src, nil), bound, maxExec)
		w.Count("states", 1)
		w.Count("evaluations", int64(sum.executions))
		w.Count("schedules", int64(sum.executions))
		w.Count("schedule_phase_sources", 1)
		w.Count("transitions", sum.transitions)
		w.Count("traces_validated_against_impl", int64(sum.executions))
		if sum.executions > 1 {
			w.Count("distinct_nontrivial", 1)
		}
		if !sum.complete {
			w.Count("inputs_capped", 1)
			w.res.Incomplete = true
		}
		if sum.deadlock == nil && sum.blocked == nil {
			// and one free run per hooked point with the goroutine that reaches it held back (e2.go, delayRuns): the real
			// channel operations decide; a call that never returns ends the worker with the runtime's deadlock report,
			// attributed to this source
			w.Announce("delay runs of " + src)
			w.Count("delay_runs", int64(delayRuns(c06ParseBody(src, nil), func(int, string) {})+1))
		}
		c := c01Case{Src: src, Kind: "schedule"}
		switch {
		case sum.deadlock != nil:
			c.Schedule = sum.deadlock
			w.Violation("deadlock-under-schedule", c, fmt.Sprintf("ParseCommands(%q) blocks forever under schedule %v (≤ %d preemptions): the caller has not returned and no goroutine can make a step", src, c.Schedule, bound))
		case sum.blocked != nil:
			c.Schedule = sum.blocked
			w.Violation("blocked-under-schedule", c, fmt.Sprintf("ParseCommands(%q) under schedule %v: a goroutine is blocked in an operation the scheduler does not own", src, c.Schedule))
		}
	}
}

func c01SchedReplay(c c01Case) error {
	installHooks()
	body := c06ParseBody(c.Src, nil)
	r := runOnce(c.Schedule, body)
	fmt.Printf("ParseCommands(%q) under schedule %v:\n  steps: %s\n  result: %s\n  deadlock=%v blocked=%v\n", c.Src, c.Schedule, traceString(r), r.obs, r.deadlock, r.blocked)
	r2 := runOnce(c.Schedule, body)
	if r2.deadlock != r.deadlock || r2.blocked != r.blocked {
		return fmt.Errorf("the replay is not deterministic")
	}
	if r.deadlock || r.blocked {
		return fmt.Errorf("ParseCommands(%q) blocks forever under schedule %v", c.Src, c.Schedule)
	}
	return nil
}
